"""CLI:  python -m mc.run <ID> [--tier quick|thorough] [--replay file]"""
import argparse
import importlib
import json
import os
import sys


def main(argv=None):
    ap = argparse.ArgumentParser()
    ap.add_argument('pid')
    ap.add_argument('--tier', default=os.environ.get('VERIF_TIER', 'quick'),
                    choices=['quick', 'thorough'])
    ap.add_argument('--replay')
    a = ap.parse_args(argv)
    pid = a.pid.upper()
    seed = int(os.environ.get('VERIF_SEED', '0') or 0)

    from . import core
    import biom
    root = os.path.realpath(core.REPO)
    if not os.path.realpath(biom.__file__).startswith(root + os.sep):
        print('HARNESS-ERROR: biom imported from %s, not from %s' % (biom.__file__, root))
        return 2
    mod = importlib.import_module('mc.props.' + pid.lower())

    if a.replay:
        doc = json.load(open(a.replay))
        case = doc['case']
        res = mod.replay(case)
        print('replay of %s (recorded sig=%s)' % (a.replay, doc.get('sig')))
        for sig, detail in res:
            print('  observed sig=%s :: %s' % (sig, detail))
        if res:
            print('VIOLATION property=%s replay=%s' % (pid, os.path.abspath(a.replay)))
            return 1
        print('  no violation observed on this tree')
        return 0

    run = core.Run(pid, a.tier, seed, mod.LEVEL, mod.RULE)
    from . import errguard
    errguard.reset()
    mod.run(run)
    errguard.assert_default(run)
    return run.finish()


if __name__ == '__main__':
    sys.exit(main())
