"""E1 – explicit-state breadth-first exploration of operation histories on the real Table.

State      = a real Table, identified by the history that produced it from a start table;
             re-materialised by replaying that history on a fresh start table.
Key        = observe.concrete_key (complete concrete state incl. sparse layout).
Transition = one op of the alphabet applied to the real object and to the model.
Ops listed in `check_ops` are compared with the dense model (and their monitors are
enforced); after any other op the model simply follows the implementation (adopt), so a
property's explorer only ever judges its own clause.
"""
import os
import traceback

from . import observe as O
from . import ops as OPS
from .compare import diff
from .core import h64
from .model import ModelRefuse


def opname(op):
    return ':'.join(str(x) for x in op)


class Spec:
    def __init__(self, starts, ops, depth, check_ops=(), on_state=None, on_transition=None,
                 apply=None, want_before=False, exc_is_violation=False, label='',
                 last_level_ops=None, by_id=False):
        self.starts = starts              # name -> (thunk, model)
        self.ops = list(ops)
        self.depth = depth
        self.check_ops = set(check_ops)   # op names (op[0]) judged against the model
        self.on_state = on_state          # f(t, m, report)            per distinct new state
        self.on_transition = on_transition  # f(tr, report)            per executed transition
        self.apply = apply or OPS.apply
        self.want_before = want_before
        self.exc_is_violation = exc_is_violation
        self.label = label
        self.last_level_ops = last_level_ops   # ops tried from the deepest frontier (default: all)
        self.cur_ops = self.ops
        self.by_id = by_id            # judged ops are also compared through the id-keyed accessors (C06)


class Tr:
    """what an on_transition oracle gets to see"""
    __slots__ = ('op', 'recv', 'res', 'm_before', 'm_after', 'before', 'inplace', 'raised',
                 'start', 'hist', 'rebuild')


def step(spec, op, t, m, hist, report, acc=None):
    """apply one op; returns (r, m2, status) with status in
    'ok' | 'refuse' (outside domain) | 'raised' (impl raised, state = receiver as left) |
    'stop' (violation judged: do not extend)"""
    checked = op[0] in spec.check_ops
    tol = any(o[0] in OPS.INEXACT_OPS for o in hist) or op[0] in OPS.INEXACT_OPS
    try:
        res = spec.apply(op, t, m, checked)
    except OPS.Refuse:
        return t, m, 'refuse', None
    except OPS.MonitorError as e:
        if checked:
            report('monitor:%s' % op[0], '%s: %s' % (opname(op), e))
            return t, m, 'stop', None
        return t, OPS.adopt(t), 'raised', None
    except Exception as e:       # noqa – the implementation raised
        if checked or spec.exc_is_violation:
            report('exception:%s:%s' % (op[0], type(e).__name__),
                   '%s raised %s: %s' % (opname(op), type(e).__name__, str(e)[:300]))
            if checked:
                return t, m, 'stop', None
        try:
            return t, OPS.adopt(t), 'raised', None
        except Exception:
            return t, m, 'raised-unobservable', None
    r = res.t if res.t is not None else t
    if checked:
        d = diff(r, res.m, order=res.order, tol=tol, by_id=(spec.by_id and res.order == ('exact', 'exact')))
        if d is not None:
            report('model:%s' % op[0], 'after %s: %s' % (opname(op), d))
            return r, res.m, 'stop', res
        m2 = res.m if res.order == ('exact', 'exact') else OPS.adopt(r)
    else:
        try:
            m2 = OPS.adopt(r)
        except Exception:
            return r, res.m, 'ok-unobservable', res
    return r, m2, 'ok', res


def build(spec, sname, hist):
    thunk, m = spec.starts[sname]
    t = thunk()
    m = m.copy()
    done = []
    for op in hist:
        t, m, status, _ = step(spec, op, t, m, done, lambda *a: None)
        if status == 'refuse':
            raise RuntimeError('HARNESS-NONDETERMINISM: recorded op %r refused on replay of %r'
                               % (op, hist))
        done.append(op)
    return t, m


_SEEN = set()
_SPEC = None


def _work(chunk, acc):
    spec = _SPEC
    out = []
    local = set()
    for sname, hist in chunk:
        hist = tuple(hist)
        for op in spec.cur_ops:
            t, m = build(spec, sname, hist)
            case = {'start': sname, 'history': [list(o) for o in hist + (op,)]}

            def report(sig, detail, case=case):
                acc.violation(sig, detail, case)
            report.count = acc.count
            before = O.content(t) if spec.want_before else None
            src_key = O.concrete_key(t) if spec.on_transition or True else None
            m_before = m
            r, m2, status, res = step(spec, op, t, m, hist, report)
            if status == 'refuse':
                acc.count('refused:' + op[0])
                continue
            acc.trans += 1
            acc.count('op:' + op[0])
            if status.startswith('raised'):
                acc.count('raised:' + op[0])
            if status == 'stop':
                continue
            try:
                key = O.concrete_key(r)
            except Exception:
                report('unobservable-state', 'concrete state unreadable after %s:\n%s'
                       % (opname(op), traceback.format_exc()[-800:]))
                continue
            if key != src_key:
                acc.nontrivial.add(h64((src_key, op)))
            if spec.on_transition is not None:
                tr = Tr()
                tr.op, tr.recv, tr.res, tr.m_before, tr.m_after = op, t, r, m_before, m2
                tr.before, tr.raised, tr.start, tr.hist = before, status.startswith('raised'), sname, hist
                tr.inplace = None if res is None else res.inplace
                tr.rebuild = (lambda sname=sname, hist=hist: build(spec, sname, hist))
                acc.evals += 1
                try:
                    spec.on_transition(tr, report)
                except Exception:
                    acc.violation('HARNESS-ERROR', traceback.format_exc()[-2500:], case)
            if status.endswith('unobservable'):
                report('unobservable-state', 'public accessors fail after %s' % opname(op))
                continue
            if key in _SEEN or key in local:
                continue
            local.add(key)
            acc.states.add(key)
            try:
                acc.outcomes.add(O.content_key(r))
                acc.count('layout:' + O.layout_class(r))
            except Exception:
                pass
            if spec.on_state is not None:
                acc.evals += 1
                try:
                    spec.on_state(r, m2, report)
                except Exception as e:
                    # an exception that comes out of the library while the oracle merely looks at the table is a
                    # finding about the table, not a defect of the harness
                    tb = traceback.extract_tb(e.__traceback__)
                    if tb and (os.sep + 'biom' + os.sep) in tb[-1].filename and 'mc' + os.sep not in tb[-1].filename:
                        acc.violation('oracle-call-raised:' + type(e).__name__, 'the library raised while the state was '
                                      'being observed: %s: %s (%s:%d)' % (type(e).__name__, e, os.path.basename(tb[-1].filename),
                                                                         tb[-1].lineno), case)
                    else:
                        acc.violation('HARNESS-ERROR', traceback.format_exc()[-2500:], case)
            out.append((key, sname, hist + (op,)))
        acc.traces += 1
    if chunk:
        acc.sample({'start': chunk[0][0], 'history': [list(o) for o in chunk[0][1]],
                    'then': 'every op of the alphabet'})
    return out


def explore(run, spec):
    """BFS to spec.depth (or fixpoint).  Returns dict with depth_completed / fixpoint."""
    global _SPEC
    _SPEC = spec
    _SEEN.clear()
    frontier = []
    acc0 = run.acc
    for sname in spec.starts:
        t, m = build(spec, sname, ())
        key = O.concrete_key(t)
        if key in _SEEN:
            continue
        _SEEN.add(key)
        acc0.states.add(key)
        acc0.outcomes.add(O.content_key(t))
        acc0.count('layout:' + O.layout_class(t))
        if spec.on_state is not None:
            case = {'start': sname, 'history': []}

            def report0(sig, detail, case=case):
                acc0.violation(sig, detail, case)
            report0.count = acc0.count
            spec.on_state(t, m, report0)
        frontier.append((sname, ()))
    depth_done = 0
    fixpoint = False
    per_level = []
    all_states = list(frontier)
    for d in range(1, spec.depth + 1):
        if not frontier:
            fixpoint = True
            break
        spec.cur_ops = spec.last_level_ops if (d == spec.depth and spec.last_level_ops is not None) \
            else spec.ops
        rets = run.pmap(_work, frontier, collect=True)
        nxt = []
        for ret in rets:
            for key, sname, hist in (ret or []):
                if key in _SEEN:
                    continue
                _SEEN.add(key)
                nxt.append((sname, hist))
                all_states.append((sname, hist))
        per_level.append({'depth': d, 'frontier_in': len(frontier), 'new_states': len(nxt)})
        depth_done = d
        frontier = nxt
    else:
        if not frontier:
            fixpoint = True
    info = {'depth_completed': depth_done, 'fixpoint': fixpoint, 'levels': per_level,
            'alphabet_size': len(spec.ops), 'starts': list(spec.starts),
            'unexpanded_frontier': len(frontier)}
    key = 'search' + (':' + spec.label if spec.label else '')
    run.extra[key] = dict(info)
    info['states'] = all_states
    return info


def replay_history(spec, case):
    """re-execute one recorded history with the oracles on; returns [(sig, detail)]"""
    found = []
    sname = case['start']
    hist = [tuple(o) for o in case['history']]
    thunk, m = spec.starts[sname]
    t = thunk()
    m = m.copy()

    def report(sig, detail):
        found.append((sig, detail))
    report.count = lambda *a, **k: None
    if spec.on_state is not None and not hist:
        spec.on_state(t, m, report)
    done = []
    for k, op in enumerate(hist):
        last = k == len(hist) - 1
        before = O.content(t) if spec.want_before else None
        m_before = m
        recv = t
        r, m2, status, res = step(spec, op, t, m, done, report if last else (lambda *a: None))
        if status == 'refuse':
            found.append(('HARNESS-NONDETERMINISM', 'op %r refused on replay' % (op,)))
            return found
        if last and status != 'stop':
            if spec.on_transition is not None:
                tr = Tr()
                tr.op, tr.recv, tr.res, tr.m_before, tr.m_after = op, recv, r, m_before, m2
                tr.before, tr.raised, tr.start, tr.hist = before, status.startswith('raised'), sname, tuple(done)
                tr.inplace = None if res is None else res.inplace
                tr.rebuild = (lambda: build(spec, sname, tuple(done)))
                spec.on_transition(tr, report)
            if spec.on_state is not None and not status.endswith('unobservable'):
                spec.on_state(r, m2, report)
        t, m = r, m2
        done.append(op)
    return found
