"""Runner core: accumulators, parallel enumeration, violations/replays, known findings,
evidence.  Every property module exposes

    LEVEL            'model_checking' | 'fault_enumeration'
    RULE             text: how cases are enumerated and what makes one non-trivial
    run(run)         enumerate; call run.pmap(...) / run.acc.* ; nothing is sampled
    replay(case)     re-execute one recorded case -> list of (sig, detail)

A *case* is a JSON-able description (start table spec, operation names, RNG script, …)
that `replay` can re-execute without the explorer.
"""
import hashlib
import json
import multiprocessing as mp
import os
import re
import sys
import time
import traceback

VERIF = os.path.dirname(os.path.dirname(os.path.abspath(__file__)))
REPO = os.environ.get('VERIF_REPO', '/repo')
NPROC = int(os.environ.get('VERIF_NPROC', '0')) or min(16, os.cpu_count() or 1)


def h64(obj):
    """Stable 64-bit hash of a repr-able object (PYTHONHASHSEED independent)."""
    if not isinstance(obj, (bytes, bytearray)):
        obj = repr(obj).encode('utf-8', 'surrogatepass')
    return int.from_bytes(hashlib.blake2b(obj, digest_size=8).digest(), 'big')


def jsonable(x):
    import numpy as np
    if isinstance(x, dict):
        return {str(k): jsonable(v) for k, v in x.items()}
    if isinstance(x, (list, tuple)):
        return [jsonable(v) for v in x]
    if isinstance(x, (set, frozenset)):
        return sorted((jsonable(v) for v in x), key=repr)
    if isinstance(x, np.ndarray):
        return jsonable(x.tolist())
    if isinstance(x, np.generic):
        return jsonable(x.item())
    if isinstance(x, float):
        if x != x or x in (float('inf'), float('-inf')):
            return repr(x)
        return x
    if isinstance(x, (str, int, bool)) or x is None:
        return x
    if isinstance(x, bytes):
        return {'__bytes__': x.decode('latin-1')}
    return repr(x)


class Acc:
    """Picklable accumulator filled by workers and merged by the parent."""
    MAXVIOL_PER_SIG = 3

    def __init__(self):
        self.evals = 0            # oracle evaluations (cases executed)
        self.trans = 0            # operations executed on the real code
        self.traces = 0           # complete paths run in lock-step with the model
        self.states = set()       # hashes of distinct canonical states
        self.outcomes = set()     # hashes of distinct observed outcomes (content)
        self.nontrivial = set()   # hashes of distinct non-trivial cases
        self.viol = {}            # sig -> [count, [(detail, case), ...]]
        self.samples = []         # a few cases written out
        self.counters = {}        # free-form named counters (vacuity guards, classes)
        self.notes = set()

    def count(self, name, n=1):
        self.counters[name] = self.counters.get(name, 0) + n

    def violation(self, sig, detail, case):
        e = self.viol.setdefault(sig, [0, []])
        e[0] += 1
        if len(e[1]) < self.MAXVIOL_PER_SIG:
            e[1].append((str(detail)[:2000], jsonable(case)))

    def sample(self, case, cap=6):
        if len(self.samples) < cap:
            self.samples.append(jsonable(case))

    def merge(self, o):
        self.evals += o.evals
        self.trans += o.trans
        self.traces += o.traces
        self.states |= o.states
        self.outcomes |= o.outcomes
        self.nontrivial |= o.nontrivial
        for k, v in o.counters.items():
            self.counters[k] = self.counters.get(k, 0) + v
        for sig, (n, ex) in o.viol.items():
            e = self.viol.setdefault(sig, [0, []])
            e[0] += n
            for x in ex:
                if len(e[1]) < self.MAXVIOL_PER_SIG:
                    e[1].append(x)
        for s in o.samples:
            if len(self.samples) < 12:
                self.samples.append(s)
        self.notes |= o.notes


_WORK = {}


def _call(args):
    fn_key, chunk = args
    fn = _WORK[fn_key]
    acc = Acc()
    try:
        ret = fn(chunk, acc)
    except Exception:
        acc.violation('HARNESS-ERROR', traceback.format_exc()[-3000:], {'chunk': repr(chunk)[:500]})
        ret = None
    return acc, ret


def chunked(seq, n):
    seq = list(seq)
    if not seq:
        return []
    size = max(1, (len(seq) + n - 1) // n)
    return [seq[i:i + size] for i in range(0, len(seq), size)]


class Run:
    def __init__(self, pid, tier, seed, level, rule):
        self.pid, self.tier, self.seed, self.level, self.rule = pid, tier, seed, level, rule
        self.acc = Acc()
        self.t0 = time.time()
        self.extra = {}           # extra coverage keys
        self.assumptions = []
        self.exhaustive = True
        self.caps = []
        self.deadline = None
        self.sub_lines = []       # VIOLATION / KNOWN-FINDING lines of hash-seed sub-runs
        self.sub_rc = 0

    @property
    def quick(self):
        return self.tier == 'quick'

    def pmap(self, fn, items, nchunks=None, collect=False):
        """Run fn(chunk, acc) over `items` split into chunks on a fork pool.
        Deterministic chunking; results merged in order."""
        items = list(items)
        if not items:
            return []
        key = '%s.%s' % (fn.__module__, fn.__qualname__)
        _WORK[key] = fn
        chunks = chunked(items, nchunks or NPROC * 4)
        rets = []
        if NPROC == 1 or len(chunks) == 1:
            for c in chunks:
                acc, ret = _call((key, c))
                self.acc.merge(acc)
                rets.append(ret)
        else:
            rets = self._pool_map(key, chunks)
        return rets if collect else None

    def _pool_map(self, key, chunks):
        """fork pool that survives a worker killed by a signal (a crashing native kernel of the library under
        test must become a violation with the offending case, not a hang)"""
        from concurrent.futures import ProcessPoolExecutor
        from concurrent.futures.process import BrokenProcessPool
        ctx = mp.get_context('fork')
        results = [None] * len(chunks)
        pending = list(range(len(chunks)))
        try:
            with ProcessPoolExecutor(max_workers=min(NPROC, len(chunks)), mp_context=ctx) as ex:
                futs = {i: ex.submit(_call, (key, chunks[i])) for i in pending}
                for i in list(pending):
                    results[i] = futs[i].result()
                    pending.remove(i)
        except BrokenProcessPool:
            pass
        # a worker died: re-run what is missing, one process per chunk, then one per item to find the culprit
        for i in list(pending):
            got = self._isolated(key, chunks[i])
            if got is not None:
                results[i] = got
                continue
            accs = Acc()
            rets_i = []
            for item in chunks[i]:
                one = self._isolated(key, [item])
                if one is None:
                    accs.violation('process-killed', 'the interpreter running this case was killed by a signal '
                                   '(crash in native code of the library under test)', item)
                else:
                    accs.merge(one[0])
                    if one[1]:
                        rets_i += list(one[1]) if isinstance(one[1], (list, tuple)) else [one[1]]
            results[i] = (accs, rets_i or None)
            self.cap('a worker process was killed while running chunk %d; its cases were re-run one by one' % i)
        out = []
        for acc, ret in results:
            self.acc.merge(acc)
            out.append(ret)
        return out

    @staticmethod
    def _isolated(key, chunk):
        from concurrent.futures import ProcessPoolExecutor
        from concurrent.futures.process import BrokenProcessPool
        try:
            with ProcessPoolExecutor(max_workers=1, mp_context=mp.get_context('fork')) as ex:
                return ex.submit(_call, (key, chunk)).result()
        except BrokenProcessPool:
            return None

    def cap(self, what):
        self.exhaustive = False
        self.caps.append(what)

    # ------------------------------------------------------------------ finish
    def finish(self):
        from . import findings, build
        acc = self.acc
        kf = findings.load()
        harness = {s: v for s, v in acc.viol.items() if s.startswith('HARNESS-')}
        lines = []
        new = []
        known_hit = []
        for sig, (n, ex) in sorted(acc.viol.items()):
            if sig in harness:
                continue
            f = findings.match(kf, self.pid, sig)
            if f is not None:
                known_hit.append((f, sig, n))
                continue
            new.append((sig, n, ex))
        if new:
            # vacuity guards are only meaningful on a run without violations: a violated clause may
            # legitimately never reach its "passed" counter
            harness.pop('HARNESS-VACUOUS', None)
        rc = 0
        for f, sig, n in known_hit:
            lines.append('KNOWN-FINDING: property=%s %s [sig=%s, %d case(s) this run]'
                         % (self.pid, f['what'], sig, n))
        if new:
            rc = 1
            os.makedirs(os.path.join(VERIF, 'replays', self.pid), exist_ok=True)
            for sig, n, ex in new:
                detail, case = ex[0]
                doc = {'property': self.pid, 'sig': sig, 'count_this_run': n,
                       'detail': detail, 'case': case, 'tier': self.tier, 'seed': self.seed,
                       'env': {'PYTHONHASHSEED': os.environ.get('PYTHONHASHSEED'),
                               'LC_ALL': os.environ.get('LC_ALL'), 'VERIF_REPO': REPO},
                       'other_examples': [{'detail': d, 'case': c} for d, c in ex[1:]]}
                name = re.sub(r'[^A-Za-z0-9_.-]+', '_', sig)[:80] + '-' + \
                    '%016x' % h64(json.dumps(case, sort_keys=True))
                path = os.path.join(VERIF, 'replays', self.pid, name + '.json')
                with open(path, 'w') as fh:
                    json.dump(doc, fh, indent=1, sort_keys=True)
                lines.append('VIOLATION property=%s replay=%s' % (self.pid, path))
                lines.append('  sig=%s cases=%d :: %s' % (sig, n, detail.replace('\n', ' | ')[:600]))
        if harness:
            rc = 2
            for sig, (n, ex) in harness.items():
                lines.append('%s property=%s count=%d :: %s' % (sig, self.pid, n, ex[0][0][-1500:]))
        cov = {
            'states': len(acc.states),
            'transitions': acc.trans,
            'traces_validated_against_impl': acc.traces,
            'evaluations': acc.evals,
            'distinct_nontrivial': len(acc.nontrivial),
            'distinct_outcomes': len(acc.outcomes),
            'rule': self.rule,
            'samples': acc.samples[:12] or [{'note': 'no sample recorded'}],
            'exhaustive': bool(self.exhaustive),
            'caps_hit': self.caps,
            'counters': dict(sorted(acc.counters.items())),
            'violation_signatures': {s: v[0] for s, v in acc.viol.items()},
            'known_findings_reobserved': [s for _, s, _ in known_hit],
        }
        cov.update(self.extra)
        ev = {
            'property_id': self.pid, 'tier': self.tier, 'seed': self.seed,
            'level': self.level, 'coverage': cov,
            'assumptions': list(self.assumptions) + build.stale_notes() + sorted(acc.notes) +
            ['tree under test: %s' % REPO],
            'wall_s': round(time.time() - self.t0, 2),
            'violations': sum(n for _, n, _ in new),
        }
        os.makedirs(os.path.join(VERIF, 'evidence'), exist_ok=True)
        tmp = os.path.join(VERIF, 'evidence', '.%s.%d.tmp' % (self.pid, os.getpid()))
        with open(tmp, 'w') as fh:
            json.dump(ev, fh, indent=1, sort_keys=True, default=repr)
        os.replace(tmp, os.environ.get('VERIF_EVIDENCE_OUT') or
                   os.path.join(VERIF, 'evidence', self.pid + '.json'))
        for ln in self.sub_lines:
            print(ln)
        rc = max(rc, self.sub_rc)
        for ln in lines:
            print(ln)
        print('%s tier=%s seed=%d states=%d transitions=%d traces=%d evaluations=%d '
              'nontrivial=%d outcomes=%d exhaustive=%s wall=%.1fs rc=%d'
              % (self.pid, self.tier, self.seed, cov['states'], cov['transitions'],
                 cov['traces_validated_against_impl'], cov['evaluations'],
                 cov['distinct_nontrivial'], cov['distinct_outcomes'], cov['exhaustive'],
                 ev['wall_s'], rc))
        sys.stdout.flush()
        return rc


def hash_seed_reruns(run, seeds):
    """PYTHONHASHSEED is one more enumerated environment choice: repeat the whole enumeration of this
    property in a fresh interpreter per extra hash seed and fold the verdicts in."""
    import subprocess
    import tempfile
    if os.environ.get('VERIF_SUBRUN'):
        return
    out = {}
    for h in seeds:
        fd, evp = tempfile.mkstemp(prefix='verif-sub-', suffix='.json')
        os.close(fd)
        env = dict(os.environ, VERIF_HASHSEED=str(h), VERIF_SUBRUN='1', VERIF_EVIDENCE_OUT=evp,
                   VERIF_SEED=str(run.seed))
        r = subprocess.run([os.path.join(VERIF, 'check'), run.pid, '--tier', run.tier], env=env,
                           capture_output=True, text=True)
        try:
            ev = json.load(open(evp))
            out[str(h)] = {'rc': r.returncode, 'transitions': ev['coverage']['transitions'],
                           'evaluations': ev['coverage']['evaluations'], 'states': ev['coverage']['states'],
                           'wall_s': ev['wall_s']}
            run.acc.trans += ev['coverage']['transitions']
            run.acc.evals += ev['coverage']['evaluations']
        except Exception as e:
            out[str(h)] = {'rc': r.returncode, 'error': repr(e)}
        finally:
            try:
                os.unlink(evp)
            except OSError:
                pass
        for ln in r.stdout.splitlines():
            if ln.startswith('VIOLATION') or ln.startswith('  sig=') or ln.startswith('HARNESS'):
                run.sub_lines.append(ln + ('' if ln.startswith('  ') else ' [PYTHONHASHSEED=%s]' % h))
        if r.returncode != 0:
            run.sub_rc = max(run.sub_rc, r.returncode if r.returncode in (1, 2) else 2)
    run.extra['hash_seed_runs'] = out
    run.extra['hash_seeds'] = [os.environ.get('PYTHONHASHSEED', '0')] + [str(h) for h in seeds]


def vacuity(run, required):
    """Every named counter must have fired at least once, else HARNESS-VACUOUS."""
    for name in required:
        if run.acc.counters.get(name, 0) <= 0:
            run.acc.violation('HARNESS-VACUOUS', 'counter %r never fired' % name, {'counter': name})
