"""Dense reference model of a BIOM table: boring on purpose.

obs/samp id lists, a dense list-of-lists of floats, per-axis metadata (None or list of
dicts), type.  No sparse layout, no index dict, no dtype width.  Every operation is a
few lines of plain Python.  Nothing here imports biom.
"""
import collections
import copy
import re

from .observe import freeze

AXES = ('sample', 'observation')


def other(axis):
    return 'observation' if axis == 'sample' else 'sample'


class ModelRefuse(Exception):
    """The model says the operation must be refused (with the receiver unchanged)."""


class M:
    def __init__(s, o, c, m, omd=None, smd=None, type=None):
        s.o = [str(x) for x in o]
        s.c = [str(x) for x in c]
        s.m = [[float(v) for v in r] for r in m]
        if not s.m and s.o:
            s.m = [[] for _ in s.o]
        s.omd = copy.deepcopy(omd)
        s.smd = copy.deepcopy(smd)
        s.type = type
        s._norm_md()

    # ---------------------------------------------------------------- basics
    def _norm_md(s):
        for a in ('omd', 'smd'):
            md = getattr(s, a)
            if md is not None:
                md = [dict(x) if x else {} for x in md]
                if all(not x for x in md):
                    md = None
            setattr(s, a, md)

    def copy(s):
        return copy.deepcopy(s)

    def ids(s, ax):
        return s.c if ax == 'sample' else s.o

    def md(s, ax):
        return s.smd if ax == 'sample' else s.omd

    def set_ids(s, ax, v):
        if ax == 'sample':
            s.c = list(v)
        else:
            s.o = list(v)

    def set_md(s, ax, v):
        if ax == 'sample':
            s.smd = v
        else:
            s.omd = v

    def vec(s, ax, i):
        return [r[i] for r in s.m] if ax == 'sample' else list(s.m[i])

    def val(s, o, c):
        return s.m[s.o.index(o)][s.c.index(c)]

    def get(s, o, c):
        """value or 0.0 when either id is absent"""
        if o in s.o and c in s.c:
            return s.val(o, c)
        return 0.0

    @property
    def shape(s):
        return (len(s.o), len(s.c))

    def total(s):
        return sum(sum(r) for r in s.m)

    def content(s):
        def fm(md):
            if md is None:
                return None
            return tuple(freeze(d) if d else ('D',) for d in md)
        return (tuple(s.o), tuple(s.c), tuple(tuple(v + 0.0 for v in r) for r in s.m),
                fm(s.omd), fm(s.smd), s.type)

    def nonneg(s):
        return all(v >= 0 for r in s.m for v in r)

    # ---------------------------------------------------------------- structure
    def T(s):
        return M(s.c, s.o, [[s.m[i][j] for i in range(len(s.o))] for j in range(len(s.c))],
                 s.smd, s.omd, None)

    def take(s, ax, idx):
        n = s.copy()
        idx = list(idx)
        if ax == 'sample':
            n.c = [s.c[i] for i in idx]
            n.m = [[r[i] for i in idx] for r in s.m]
            n.smd = None if s.smd is None else [copy.deepcopy(s.smd[i]) for i in idx]
        else:
            n.o = [s.o[i] for i in idx]
            n.m = [list(s.m[i]) for i in idx]
            n.omd = None if s.omd is None else [copy.deepcopy(s.omd[i]) for i in idx]
        n._norm_md()
        return n

    def filter_idx(s, ax, keep):
        keep = set(keep)
        return s.take(ax, [i for i in range(len(s.ids(ax))) if i in keep])

    def filter_ids(s, ax, idset, invert=False):
        idset = set(idset)
        return s.take(ax, [i for i, x in enumerate(s.ids(ax)) if (x in idset) != invert])

    def sort_order(s, ax, order):
        ids = s.ids(ax)
        return s.take(ax, [ids.index(x) for x in order])

    def head(s, n, m):
        r = s.take('observation', range(min(n, len(s.o))))
        return r.take('sample', range(min(m, len(s.c))))

    def empties(s, ax):
        return [i for i in range(len(s.ids(ax))) if not any(v != 0 for v in s.vec(ax, i))]

    def remove_empty(s, ax):
        n = s
        for a in (['sample', 'observation'] if ax == 'whole' else [ax]):
            e = set(n.empties(a))
            n = n.take(a, [i for i in range(len(n.ids(a))) if i not in e])
        return n

    def update_ids(s, ax, mp, strict=True):
        n = s.copy()
        new = []
        for i in n.ids(ax):
            if strict and i not in mp:
                raise ModelRefuse('strict rename misses %r' % i)
            new.append(mp.get(i, i))
        if len(set(new)) != len(new):
            raise ModelRefuse('rename creates duplicates')
        n.set_ids(ax, new)
        return n

    # ---------------------------------------------------------------- metadata
    def add_md(s, ax, mp):
        n = s.copy()
        ids, md = n.ids(ax), n.md(ax)
        if md is None:
            md = [copy.deepcopy(dict(mp[i])) if i in mp else {} for i in ids]
        else:
            for k, i in enumerate(ids):
                if i in mp:
                    md[k].update(copy.deepcopy(mp[i]))
        n.set_md(ax, md)
        n._norm_md()
        return n

    def del_md(s, ax, keys):
        n = s.copy()
        for a in (['sample', 'observation'] if ax == 'whole' else [ax]):
            md = n.md(a)
            if md is None:
                continue
            if keys is None:
                md = None
            else:
                for d in md:
                    for k in keys:
                        d.pop(k, None)
            n.set_md(a, md)
        n._norm_md()
        return n

    # ---------------------------------------------------------------- values
    def transform(s, ax, f):
        """f(list of non-zero values in axis order, id, md) -> list of same length"""
        n = s.copy()
        md = n.md(ax)
        for i, id_ in enumerate(n.ids(ax)):
            v = n.vec(ax, i)
            nz = [k for k, x in enumerate(v) if x != 0]
            out = f([v[k] for k in nz], id_, None if md is None else md[i])
            for k, x in zip(nz, out):
                if ax == 'sample':
                    n.m[k][i] = float(x) + 0.0
                else:
                    n.m[i][k] = float(x) + 0.0
        return n

    def norm(s, ax):
        return s.transform(ax, lambda v, i, md: [x / sum(v) for x in v])

    def pa(s):
        return s.transform('sample', lambda v, i, md: [1.0] * len(v))

    # ---------------------------------------------------------------- grouping
    def groups(s, ax, lab):
        """OrderedDict label -> member positions; lab(id, md)"""
        g = collections.OrderedDict()
        md = s.md(ax)
        for k, i in enumerate(s.ids(ax)):
            g.setdefault(lab(i, None if md is None else md[k]), []).append(k)
        return g

    def collapse(s, ax, lab, norm=False, min_group_size=1, include_md=True):
        ids = s.ids(ax)
        g = collections.OrderedDict((k, v) for k, v in s.groups(ax, lab).items()
                                    if len(v) >= min_group_size)
        oth = s.ids(other(ax))
        vecs = []
        for mem in g.values():
            v = [sum(s.vec(ax, k)[j] for k in mem) for j in range(len(oth))]
            if norm:
                v = [x / len(mem) for x in v]
            vecs.append(v)
        cmd = [{'collapsed_ids': [ids[k] for k in mem]} for mem in g.values()] \
            if include_md else None
        if ax == 'sample':
            mat = [[vecs[k][j] for k in range(len(g))] for j in range(len(oth))]
            return M(s.o, list(g), mat, s.omd, cmd, s.type)
        return M(list(g), s.c, vecs, cmd, s.smd, s.type)


# ------------------------------------------------------------------- binary ops
def merge(a, b, sample='union', observation='union', smf=None, omf=None):
    """smf/omf(x, y) -> metadata; default: receiver's if present else other's."""
    def pick(x, y):
        return x if x is not None else y
    smf = smf or pick
    omf = omf or pick
    es = a.c + [x for x in b.c if x not in a.c] if sample == 'union' \
        else [x for x in a.c if x in b.c]
    eo = a.o + [x for x in b.o if x not in a.o] if observation == 'union' \
        else [x for x in a.o if x in b.o]
    if not es or not eo:
        raise ModelRefuse('empty intersection')
    mat = [[a.get(o, s) + b.get(o, s) for s in es] for o in eo]

    def md(ids, amd, aids, bmd, bids, f):
        out = []
        for i in ids:
            x = amd[aids.index(i)] if (amd is not None and i in aids) else None
            y = bmd[bids.index(i)] if (bmd is not None and i in bids) else None
            out.append(copy.deepcopy(f(x, y)))
        return out
    return M(eo, es, mat, md(eo, a.omd, a.o, b.omd, b.o, omf),
             md(es, a.smd, a.c, b.smd, b.c, smf), None)


def concat(tabs, axis='sample'):
    inv = other(axis)
    seen = set()
    for t in tabs:
        for i in t.ids(axis):
            if i in seen:
                raise ModelRefuse('concat axis ids not disjoint')
            seen.add(i)
    inv_ids = []
    for t in tabs:
        for i in t.ids(inv):
            if i not in inv_ids:
                inv_ids.append(i)
    ax_ids = [i for t in tabs for i in t.ids(axis)]
    own = {i: t for t in tabs for i in t.ids(axis)}

    def v(t, ai, ii):
        o, s = (ii, ai) if axis == 'sample' else (ai, ii)
        return t.get(o, s)
    amd = []
    for i in ax_ids:
        t = own[i]
        md = t.md(axis)
        amd.append(copy.deepcopy(md[t.ids(axis).index(i)]) if md is not None else None)
    imd = []
    for i in inv_ids:
        src = [t for t in tabs if i in t.ids(inv)][0]
        md = src.md(inv)
        imd.append(copy.deepcopy(md[src.ids(inv).index(i)]) if md is not None else None)
    if axis == 'sample':
        mat = [[v(own[s], s, o) for s in ax_ids] for o in inv_ids]
        return M(inv_ids, ax_ids, mat, imd, amd, tabs[0].type)
    mat = [[v(own[o], o, s) for s in inv_ids] for o in ax_ids]
    return M(ax_ids, inv_ids, mat, amd, imd, tabs[0].type)


def natkey(x):
    """natural sort key equal in effect to biom.util.natsort's"""
    parts = re.split(r'(\d+(?:\.\d+)?)', str(x))
    out = []
    for p in parts:
        if p and p[0].isdigit():
            out.append((0, float(p) if '.' in p else int(p)))
        else:
            out.append((1, p))
    return (out, str(x))
