"""Rebuild stale compiled kernels of the tree under test from their generated .c.

The three Cython kernels (_filter, _transform, _subsample) ship as generated C plus a
compiled extension.  Cython itself is not installed in this image, so a .pyx edit cannot
take effect for anyone; a .c edit can, and is honoured here: when X.c is newer than
X*.so (or the .so is missing) the extension is rebuilt with gcc.  A .pyx newer than its
.c is recorded (mc.core reads the note into the evidence `assumptions`).
"""
import fcntl
import glob
import os
import subprocess
import sys
import sysconfig

KERNELS = ('_filter', '_transform', '_subsample')


def repo():
    return os.environ.get('VERIF_REPO', '/repo')


def stale_notes():
    notes = []
    b = os.path.join(repo(), 'biom')
    for k in KERNELS:
        pyx, c = os.path.join(b, k + '.pyx'), os.path.join(b, k + '.c')
        if os.path.exists(pyx) and os.path.exists(c) and \
                os.path.getmtime(pyx) > os.path.getmtime(c) + 1:
            notes.append('%s.pyx is newer than %s.c: Cython is not installed, the kernel '
                         'is checked as compiled from the existing .c' % (k, k))
    return notes


def main():
    b = os.path.join(repo(), 'biom')
    if not os.path.isdir(b):
        print('mc.build: no biom package under %s' % repo(), file=sys.stderr)
        return 2
    suffix = sysconfig.get_config_var('EXT_SUFFIX')
    todo = []
    for k in KERNELS:
        c = os.path.join(b, k + '.c')
        so = os.path.join(b, k + suffix)
        if not os.path.exists(c):
            if not os.path.exists(so):
                print('mc.build: neither %s nor %s exists' % (c, so), file=sys.stderr)
                return 2
            continue
        if not os.path.exists(so) or os.path.getmtime(c) > os.path.getmtime(so):
            todo.append((k, c, so))
    if not todo:
        return 0
    import numpy
    inc = [sysconfig.get_paths()['include'], numpy.get_include()]
    import hashlib
    import tempfile
    lockpath = os.path.join(tempfile.gettempdir(), '.verif-build-%s.lock'
                            % hashlib.md5(b.encode()).hexdigest()[:10])
    lock = open(lockpath, 'w')
    fcntl.flock(lock, fcntl.LOCK_EX)
    try:
        for k, c, so in todo:
            if os.path.exists(so) and os.path.getmtime(c) <= os.path.getmtime(so):
                continue  # somebody else built it while we waited
            tmp = so + '.tmp%d' % os.getpid()
            cmd = ['gcc', '-shared', '-fPIC', '-O2', '-w', '-fwrapv',
                   '-DNPY_NO_DEPRECATED_API=NPY_1_7_API_VERSION']
            for i in inc:
                cmd += ['-I', i]
            cmd += [c, '-o', tmp]
            r = subprocess.run(cmd, capture_output=True, text=True)
            if r.returncode != 0:
                print('mc.build: gcc failed for %s\n%s' % (c, r.stderr[-2000:]),
                      file=sys.stderr)
                try:
                    os.unlink(tmp)
                except OSError:
                    pass
                return 2
            os.replace(tmp, so)
            print('mc.build: rebuilt %s from %s' % (os.path.basename(so),
                                                    os.path.basename(c)), file=sys.stderr)
    finally:
        fcntl.flock(lock, fcntl.LOCK_UN)
        lock.close()
    return 0


if __name__ == '__main__':
    sys.exit(main())
