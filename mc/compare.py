"""Comparison of a real table with the model (public accessors only)."""
import math

from . import observe as O


def _close(a, b, tol):
    if a == b:
        return True
    if not tol:
        return False
    return math.isclose(a, b, rel_tol=1e-12, abs_tol=0.0)


def _md_of(md, k):
    if md is None:
        return ('D',)
    e = md[k]
    return O.freeze(dict(e)) if e else ('D',)


def diff(t, m, order=('exact', 'exact'), tol=False, ignore_type=False, ignore_md=False, by_id=False):
    """None when table t shows the content of model m, else a short description.
    order = (observation, sample); 'set' compares ids as sets and values/metadata by id."""
    to, ts = O.ids(t, 'observation'), O.ids(t, 'sample')
    if t.shape != (len(to), len(ts)):
        return 'shape %r but %d x %d ids' % (t.shape, len(to), len(ts))
    for name, got, exp, mode in (('observation', to, tuple(m.o), order[0]),
                                 ('sample', ts, tuple(m.c), order[1])):
        if mode == 'exact':
            if got != exp:
                return '%s ids %r, expected %r' % (name, got, exp)
        else:
            if len(got) != len(exp) or set(got) != set(exp):
                return '%s id set %r, expected %r' % (name, sorted(got), sorted(exp))
    d = O.dense(t)
    oi = {x: i for i, x in enumerate(to)}
    si = {x: j for j, x in enumerate(ts)}
    for i, o in enumerate(m.o):
        for j, s in enumerate(m.c):
            g, e = d[oi[o]][si[s]], m.m[i][j]
            if not _close(g, e, tol):
                return 'value(%s,%s)=%r, expected %r' % (o, s, g, e)
    if ignore_md is not True:
        for name, ids, idx, mmd in (('observation', m.o, oi, m.omd), ('sample', m.c, si, m.smd)):
            if ignore_md and name in ignore_md:
                continue
            tmd = t.metadata(axis=name)
            if tmd is not None and len(tmd) != len(ids):
                return '%s metadata has %d entries for %d ids' % (name, len(tmd), len(ids))
            for k, x in enumerate(ids):
                g = _md_of(tmd, idx[x])
                e = _md_of(mmd, k)
                if g != e:
                    return '%s metadata of %s is %r, expected %r' % (name, x, g, e)
    if not ignore_type and t.type != m.type:
        return 'type %r, expected %r' % (t.type, m.type)
    if by_id:
        # the same content must be reachable through the id-keyed accessors
        try:
            for name, ids in (('observation', m.o), ('sample', m.c)):
                mmd = m.md(name)
                for k, x in enumerate(ids):
                    if t.index(x, name) != k or not t.exists(x, name):
                        return 'index(%r,%s)=%r, position is %d' % (x, name, t.index(x, name), k)
                    if not ignore_md:
                        g = t.metadata(x, name)
                        g = O.freeze(dict(g)) if g else ('D',)
                        e = O.freeze(dict(mmd[k])) if (mmd is not None and mmd[k]) else ('D',)
                        if g != e:
                            return 'metadata(%r,%s) is %r, expected %r' % (x, name, g, e)
            for i, o in enumerate(m.o):
                for j, s in enumerate(m.c):
                    g = float(t.get_value_by_ids(o, s))
                    if not _close(g, m.m[i][j], tol):
                        return 'get_value_by_ids(%r,%r)=%r, expected %r' % (o, s, g, m.m[i][j])
                if m.c:
                    v = [float(x) for x in t.data(o, 'observation')]
                    if any(not _close(a, b, tol) for a, b in zip(v, m.m[i])) or len(v) != len(m.c):
                        return 'data(%r, observation)=%r, expected %r' % (o, v, m.m[i])
        except Exception as e:     # noqa – a lookup that fails is a description, not a harness error
            return 'id-keyed access failed: %s: %s' % (type(e).__name__, e)
    return None
