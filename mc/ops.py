"""Operation alphabet: each operation is applied to the real Table and to the model.

An op is a tuple whose first element is its name, e.g. ('filter_pred', 'sample', inv, inplace);
tuples of str/bool/int/None only, so histories are JSON-able and replayable by name.

apply(op, t, m) -> Res(t2, m2, inplace, order, monitor_errors)
  raises Refuse          op is outside its stated domain in this model state (not a transition)
  raises ExpectRefusal   the model says the implementation must refuse; carries the thunk
"""
import copy
import os

import numpy as np

from . import model as MD
from .model import M, ModelRefuse, other

AX = ('sample', 'observation')


class Refuse(Exception):
    pass


class MonitorError(Exception):
    """a monitored user callback saw arguments that disagree with the model"""


class Res:
    __slots__ = ('t', 'm', 'inplace', 'order', 'adopt', 'notes')

    def __init__(self, t, m, inplace, order=('exact', 'exact'), adopt=False, notes=()):
        self.t, self.m, self.inplace, self.order, self.adopt, self.notes = \
            t, m, inplace, order, adopt, notes


def adopt(t):
    """model taken from the implementation's observable content (after its invariants
    were checked) – used for operations whose outcome the environment decides (RNG)."""
    def md(ax):
        x = t.metadata(axis=ax)
        return None if x is None else [dict(d) for d in x]
    return M([str(i) for i in t.ids('observation')], [str(i) for i in t.ids()],
             t.matrix_data.toarray().tolist(), md('observation'), md('sample'), t.type)


# ------------------------------------------------------------------------- starts
def start_tables():
    """name -> (thunk building a fresh real Table, model)"""
    import scipy.sparse as sp
    from biom import Table
    S = {}
    D = [[1, 0, 2], [0, 0, 0], [3, 4, 0]]
    O = ['o10', 'o9', 'o2']
    C = ['s2', 's1', 's3']
    omd = [{'k': '1'}, {'k': '2'}, {'k': '1'}]
    smd = [{'g': 'u'}, {'g': 'v'}, {'g': 'u'}]
    S['plain3x3'] = (lambda: Table(np.array(D, float), O, C), M(O, C, D))
    S['md3x3'] = (lambda: Table(np.array(D, float), O, C, copy.deepcopy(omd),
                                copy.deepcopy(smd), type='OTU table'),
                  M(O, C, D, omd, smd, 'OTU table'))
    D2 = [[0, 5], [6, 7], [-1, 1]]
    def csc3x2():
        # the constructor stores every input row-compressed; an in-place per-sample transform (here the identity)
        # leaves the table column-compressed
        t = Table(sp.csc_matrix(np.array(D2, float)), ['a', 'b', 'c'], ['y', 'x'])
        t.transform(lambda v, i, md: v, axis='sample', inplace=True)
        return t
    S['csc3x2'] = (csc3x2, M(['a', 'b', 'c'], ['y', 'x'], D2))

    def stored0():
        mat = sp.csr_matrix((np.array([2.0, 0.0, 3.0]), np.array([0, 1, 1]),
                             np.array([0, 2, 3])), shape=(2, 2))
        return Table(mat, ['p', 'q'], ['s1', 's3'], [{'k': '1'}, {'k': '2'}], None)
    S['stored0_2x2'] = (stored0, M(['p', 'q'], ['s1', 's3'], [[2, 0], [0, 3]],
                                   [{'k': '1'}, {'k': '2'}], None))
    # an all-zero table given as an empty list of entries (what the JSON reader hands over for "data": [])
    S['emptylist2x2'] = (lambda: Table([], ['p', 'q'], ['s3', 's1'], None, [{'g': 'u'}, {'g': 'v'}]),
                         M(['p', 'q'], ['s3', 's1'], [[0, 0], [0, 0]], None, [{'g': 'u'}, {'g': 'v'}]))
    D3 = [[2, 1, 0], [0, 3, 4]]
    S['int2x3'] = (lambda: Table(np.array(D3, float), ['o1', 'o2'], ['a', 'b', 'c'],
                                 [{'k': '1'}, {'k': '2'}],
                                 [{'g': 'u'}, {'g': 'u'}, {'g': 'v'}]),
                   M(['o1', 'o2'], ['a', 'b', 'c'], D3, [{'k': '1'}, {'k': '2'}],
                     [{'g': 'u'}, {'g': 'u'}, {'g': 'v'}]))
    return S


def loaded_start_tables():
    """tables that were *read from a file* rather than constructed: a reader may leave ids, metadata values and the
    matrix in other types / layouts than the constructor does, and every operation must cope with that"""
    import io
    import h5py
    from biom import Table
    base = start_tables()
    S = {}

    def via_h5(name):
        def thunk():
            t = base[name][0]()
            fh = h5py.File('ops-start-%d-%d.h5' % (os.getpid(), id(t)), 'w', driver='core', backing_store=False)
            try:
                t.to_hdf5(fh, 'verif')
                return Table.from_hdf5(fh)
            finally:
                fh.close()
        return thunk

    def via_json(name):
        def thunk():
            import json
            t = base[name][0]()
            return Table.from_json(json.loads(t.to_json('verif')))
        return thunk

    def via_tsv(name):
        def thunk():
            t = base[name][0]()
            return Table.from_tsv(t.to_tsv().splitlines(), None, None, lambda x: x)
        return thunk
    S['h5:md3x3'] = (via_h5('md3x3'), base['md3x3'][1])
    S['json:int2x3'] = (via_json('int2x3'), base['int2x3'][1])
    S['tsv:plain3x3'] = (via_tsv('plain3x3'), base['plain3x3'][1])
    return S


def partner(kind):
    from biom import Table
    if kind == 'overlap':
        return (Table(np.array([[10, 20], [30, 0.]]), ['o9', 'zz'], ['s1', 'yy'],
                      [{'k': 'P9'}, {'k': 'Pz'}], None),
                M(['o9', 'zz'], ['s1', 'yy'], [[10, 20], [30, 0]], [{'k': 'P9'}, {'k': 'Pz'}], None))
    if kind == 'disjoint':
        return (Table(np.array([[7, 0], [0, 8.]]), ['d1', 'd2'], ['e1', 'e2']),
                M(['d1', 'd2'], ['e1', 'e2'], [[7, 0], [0, 8]]))
    raise KeyError(kind)


# ------------------------------------------------------------------------- helpers
def _pred_monitor(m, ax, want):
    """predicate that records its arguments; `want(vec, id, md)` decides"""
    seen = []

    def f(v, i, md):
        seen.append((str(i), tuple(float(x) for x in v), None if md is None else dict(md)))
        return want(v, i, md)
    return f, seen


def _check_pred_calls(m, ax, seen):
    ids = m.ids(ax)
    md = m.md(ax)
    exp = [(ids[i], tuple(x + 0.0 for x in m.vec(ax, i)),
            None if md is None else dict(md[i])) for i in range(len(ids))]
    got = [(a, tuple(x + 0.0 for x in b), c) for a, b, c in seen]
    if got != exp:
        raise MonitorError('predicate calls %r, expected %r' % (got, exp))


def _mdval(md):
    if md is None:
        return None
    return md.get('k', md.get('g'))


def _ints(m):
    return all(v >= 0 and v == int(v) for r in m.m for v in r)


# ------------------------------------------------------------------------- alphabet
def unary_ops(subsample=True):
    L = []
    for ax in AX:
        for inpl in (True, False):
            for inv in (False, True):
                L.append(('filter_first', ax, inv, inpl))
                L.append(('filter_pred', ax, inv, inpl))
                L.append(('filter_md', ax, inv, inpl))
            L.append(('filter_last', ax, False, inpl))
            L.append(('filter_none', ax, False, inpl))
            L.append(('filter_all', ax, False, inpl))
            L.append(('remove_empty', ax, inpl))
            L.append(('transform2', ax, inpl))
            L.append(('transform_zero', ax, inpl))
            L.append(('norm', ax, inpl))
            L.append(('rank', ax, inpl))
            L.append(('rename_long', ax, inpl))
            L.append(('rename_partial', ax, inpl))
            L.append(('rename_swap', ax, inpl))
            L.append(('rename_rot', ax, inpl))
            L.append(('rename_collide', ax, inpl))
            L.append(('rename_empty', ax, inpl))
            L.append(('rename_extra', ax, inpl))
            L.append(('filter_rev2', ax, inpl))
        L.append(('sort', ax))
        L.append(('rev', ax))
        L.append(('rot', ax))
        L.append(('add_md', ax))
        L.append(('del_md', ax))
        L.append(('del_md_all', ax))
    for inpl in (True, False):
        L.append(('pa', inpl))
        L.append(('remove_empty', 'whole', inpl))
    L += [('transpose',), ('copy',), ('head', 2, 2), ('head', 1, 1), ('nnz',), ('col',), ('row',),
          ('iter',), ('eq',), ('del_md_whole',), ('poke_zero',), ('iter_interleaved',), ('twin',),
          ('export', 'json'), ('export', 'tsv'), ('export', 'hdf5'),
          # "not in place" said with a false value that is not the literal False
          ('transform2_flag', 'sample', 'np_false'), ('transform2_flag', 'observation', 'zero'), ('pa_flag', 'np_false')]
    return L


def binary_ops():
    L = []
    for sm in ('union', 'intersection'):
        for om in ('union', 'intersection'):
            L.append(('merge', sm, om))
    L += [('merge_self',), ('concat', 'sample'), ('concat', 'observation'), ('concat_mix',),
          ('collapse', 'sample'), ('collapse', 'observation'),
          ('collapse_md', 'sample'), ('collapse_md', 'observation'),
          ('partition', 'sample', 0), ('partition', 'observation', 0),
          ('partition', 'sample', 1), ('partition', 'observation', 1),
          ('partition_re', 'sample', 0), ('partition_re', 'observation', 0),
          ('align',), ('subs_id', 'sample'), ('subs_id', 'observation'),
          ('subs_id1', 'sample'), ('subs_id1', 'observation'),
          ('subs', 'sample', 2, 0), ('subs', 'observation', 2, 1), ('subs', 'sample', 1, 2),
          ('subs_wr', 'sample', 2, 0), ('subs_wr', 'observation', 1, 1),
          ('collapse_otm', 'sample'), ('collapse_otm', 'observation'), ('align_detect',)]
    return L


def all_ops():
    return unary_ops() + binary_ops()


INEXACT_OPS = ('norm', 'collapse_md')   # results are not dyadic any more: later sums may differ by ulps


ARG_WATCH = None     # set to a list by C07: argument tables are recorded as (name, table, content before)


def _watch(name, tab):
    if ARG_WATCH is not None:
        from . import observe as O
        ARG_WATCH.append((name, tab, O.content(tab)))
    return tab


def apply(op, t, m, strict=True):
    """strict=True: the op is judged against the model (domain guards and monitors on, Res.m is
    the expected model).  strict=False: the model merely follows the implementation – guards that
    only protect the model's operand domain are off, monitors are off, Res.m may be None."""
    import biom
    from biom import Table
    n = op[0]

    def X(f):
        """expected model, only computed when the op is judged"""
        return f() if strict else None
    # ------------------------------------------------------------ filters
    if n in ('filter_first', 'filter_last', 'filter_pred', 'filter_md', 'filter_none',
             'filter_all'):
        _, ax, inv, inpl = op
        ids = m.ids(ax)
        if n in ('filter_first', 'filter_last'):
            if not ids:
                raise Refuse()
            k = 0 if n == 'filter_first' else len(ids) - 1
            keep = {k}
            r = t.filter([t.ids(ax)[k]], axis=ax, invert=inv, inplace=inpl)
        elif n == 'filter_none':
            keep = set()
            r = t.filter([], axis=ax, invert=inv, inplace=inpl)
        elif n == 'filter_all':
            keep = set(range(len(ids)))
            r = t.filter(set(t.ids(ax)), axis=ax, invert=inv, inplace=inpl)
        elif n == 'filter_pred':
            keep = {i for i in range(len(ids)) if sum(m.vec(ax, i)) > 2}
            f, seen = _pred_monitor(m, ax, lambda v, i, md: v.sum() > 2)
            r = t.filter(f, axis=ax, invert=inv, inplace=inpl)
            if strict:
                _check_pred_calls(m, ax, seen)
        else:
            md = m.md(ax)
            keep = {i for i in range(len(ids)) if md is not None and _mdval(md[i]) in ('1', 'u')}
            r = t.filter(lambda v, i, md: md is not None and _mdval(md) in ('1', 'u'),
                         axis=ax, invert=inv, inplace=inpl)
        if inv:
            keep = set(range(len(ids))) - keep
        return Res(r, X(lambda: m.filter_idx(ax, keep)), inpl)
    if n == 'remove_empty':
        return Res(t.remove_empty(op[1], inplace=op[2]), X(lambda: m.remove_empty(op[1])), op[2])
    if n == 'head':
        if strict and (not m.o or not m.c):
            raise Refuse()
        return Res(t.head(op[1], op[2]), X(lambda: m.head(op[1], op[2])), False)
    # ------------------------------------------------------------ values
    if n == 'transform2':
        return Res(t.transform(lambda v, i, md: v * 2, axis=op[1], inplace=op[2]),
                   X(lambda: m.transform(op[1], lambda v, i, md: [x * 2 for x in v])), op[2])
    if n == 'transform2_flag':
        flag = np.bool_(False) if op[2] == 'np_false' else 0
        return Res(t.transform(lambda v, i, md: v * 2, axis=op[1], inplace=flag),
                   X(lambda: m.transform(op[1], lambda v, i, md: [x * 2 for x in v])), False)
    if n == 'pa_flag':
        return Res(t.pa(inplace=np.bool_(False)), X(lambda: m.pa()), False)
    if n == 'transform_zero':
        return Res(t.transform(lambda v, i, md: np.where(v > 2, 0, v), axis=op[1], inplace=op[2]),
                   X(lambda: m.transform(op[1], lambda v, i, md: [0 if x > 2 else x for x in v])),
                   op[2])
    if n == 'norm':
        if not m.nonneg():
            raise Refuse()      # norm is stated for non-negative values
        return Res(t.norm(axis=op[1], inplace=op[2]), X(lambda: m.norm(op[1])), op[2])
    if n == 'rank':
        import scipy.stats
        return Res(t.rankdata(axis=op[1], inplace=op[2]),
                   X(lambda: m.transform(op[1], lambda v, i, md:
                                         list(scipy.stats.rankdata(v)) if v else [])),
                   op[2])
    if n == 'pa':
        return Res(t.pa(inplace=op[1]), X(lambda: m.pa()), op[1])
    # ------------------------------------------------------------ ids
    if n == 'rename_long':
        ax = op[1]
        mp = {i: (i + '_L' if not i.endswith('_L') else i[:-2]) for i in m.ids(ax)}
        if not mp:
            raise Refuse()
        return Res(t.update_ids(dict(mp), axis=ax, inplace=op[2]),
                   X(lambda: m.update_ids(ax, mp, True)), op[2])
    if n == 'rename_partial':
        ax = op[1]
        if not m.ids(ax):
            raise Refuse()
        f = m.ids(ax)[0]
        mp = {f: 'q' if f != 'q' else 'first', 'zz': 'unused'}
        try:
            mm = m.update_ids(ax, mp, False)
        except ModelRefuse:
            if strict:
                raise Refuse()
            mm = None       # follow mode: let the implementation refuse; the state it leaves is judged
        return Res(t.update_ids(dict(mp), axis=ax, strict=False, inplace=op[2]), mm, op[2])
    if n == 'rename_empty':
        # the empty mapping with strict=False renames nothing
        ax = op[1]
        return Res(t.update_ids({}, axis=ax, strict=False, inplace=op[2]), m, op[2])
    if n == 'rename_extra':
        # a mapping with an entry for an id the table does not have, whose new name repeats a used one: the
        # unused entry is ignored (strict=False), the renaming itself is injective
        ax = op[1]
        if not m.ids(ax):
            raise Refuse()
        f = m.ids(ax)[-1]
        new = 'w' if 'w' not in m.ids(ax) else 'ww'
        if new in m.ids(ax):
            raise Refuse()
        mp = {f: new, 'not_in_table': new}
        return Res(t.update_ids(dict(mp), axis=ax, strict=False, inplace=op[2]),
                   X(lambda: m.update_ids(ax, {f: new}, False)), op[2])
    if n == 'rename_collide':
        # a partial renaming onto a retained id: must be refused (and, in place, leave the table as it was)
        ax = op[1]
        ids = m.ids(ax)
        if len(ids) < 2 or strict:
            raise Refuse()
        return Res(t.update_ids({ids[0]: ids[1]}, axis=ax, strict=False, inplace=op[2]), None, op[2])
    if n == 'filter_rev2':
        ax, inpl = op[1], op[2]
        ids = m.ids(ax)
        if len(ids) < 2:
            raise Refuse()
        want = [ids[-1], ids[0]]            # an explicit list that is not in table order
        return Res(t.filter(list(want), axis=ax, inplace=inpl), X(lambda: m.filter_ids(ax, want)), inpl)
    if n in ('rename_swap', 'rename_rot'):
        ax = op[1]
        ids = m.ids(ax)
        if len(ids) < 2:
            raise Refuse()
        if n == 'rename_swap':
            mp = {ids[0]: ids[-1], ids[-1]: ids[0]}
            strict_flag = False
        else:
            mp = {ids[k]: ids[(k + 1) % len(ids)] for k in range(len(ids))}
            strict_flag = True
        return Res(t.update_ids(dict(mp), axis=ax, strict=strict_flag, inplace=op[2]),
                   X(lambda: m.update_ids(ax, mp, strict_flag)), op[2])
    if n == 'sort':
        ax = op[1]
        return Res(t.sort(axis=ax), X(lambda: m.sort_order(ax, sorted(m.ids(ax), key=MD.natkey))),
                   False)
    if n == 'rev':
        ax = op[1]
        return Res(t.sort_order(list(t.ids(ax))[::-1], axis=ax),
                   X(lambda: m.sort_order(ax, m.ids(ax)[::-1])), False)
    if n == 'rot':
        ax = op[1]
        o = m.ids(ax)[1:] + m.ids(ax)[:1]
        return Res(t.sort_order(o, axis=ax), X(lambda: m.sort_order(ax, o)), False)
    if n == 'transpose':
        return Res(t.transpose(), X(lambda: m.T()), False)
    if n == 'copy':
        return Res(t.copy(), X(lambda: m.copy()), False)
    # ------------------------------------------------------------ metadata
    if n == 'add_md':
        ax = op[1]
        mp = {i: {'n': 'v_' + i} for i in m.ids(ax)[:1]}
        mp['unknown'] = {'n': 'zz'}
        t.add_metadata(copy.deepcopy(mp), ax)
        return Res(t, X(lambda: m.add_md(ax, mp)), True)
    if n == 'del_md':
        t.del_metadata(['k', 'n'], op[1])
        return Res(t, X(lambda: m.del_md(op[1], ['k', 'n'])), True)
    if n == 'del_md_all':
        t.del_metadata(axis=op[1])
        return Res(t, X(lambda: m.del_md(op[1], None)), True)
    if n == 'del_md_whole':
        t.del_metadata(['g'])
        return Res(t, X(lambda: m.del_md('whole', ['g'])), True)
    # ------------------------------------------------------------ reads
    if n == 'nnz':
        t.nnz
        return Res(t, m, True)
    if n == 'col':
        if not m.c or not m.o:
            raise Refuse()
        t.data(t.ids()[0], 'sample')
        return Res(t, m, True)
    if n == 'row':
        if not m.c or not m.o:
            raise Refuse()
        t.data(t.ids('observation')[-1], 'observation')
        return Res(t, m, True)
    if n == 'iter':
        for _ in t.iter(axis='sample', dense=False):
            pass
        for _ in t.iter_pairwise(axis='observation'):
            pass
        return Res(t, m, True)
    if n == 'poke_zero':
        # the caller overwrites an existing entry of the exposed matrix with 0: the zero stays stored
        cells = [(i, j) for i in range(len(m.o)) for j in range(len(m.c)) if m.m[i][j] != 0]
        if not cells:
            raise Refuse()
        i, j = cells[len(cells) // 2]
        t.matrix_data[i, j] = 0.0
        mm = m.copy()
        mm.m[i][j] = 0.0
        return Res(t, mm, True)
    if n == 'twin':
        # a second table is built from the matrix this one exposes and then changed in place (rows removed, values
        # rewritten): the constructor owns its matrix, so this table must not notice
        from biom import Table
        if len(m.o) < 2 or not m.c:
            raise Refuse()
        tw = Table(t.matrix_data, [str(i) for i in t.ids('observation')], [str(i) for i in t.ids()])
        tw.filter([str(t.ids('observation')[0])], axis='observation', inplace=True)
        tw.transform(lambda v, i, md: v * 3 + 1, axis='observation', inplace=True)
        return Res(t, m, True)
    if n == 'iter_interleaved':
        # two live iterators over different axes, advanced in lock-step
        for _ in zip(t.iter(axis='observation'), t.iter(axis='sample')):
            pass
        return Res(t, m, True)
    if n == 'export':
        # writing the table out is a read: whatever an exporter remembers must not outlive a later change
        try:
            if op[1] == 'json':
                t.to_json('verif')
            elif op[1] == 'tsv':
                t.to_tsv()
            else:
                import h5py
                fh = h5py.File('ops-export-%d-%d.h5' % (os.getpid(), id(t)), 'w', driver='core', backing_store=False)
                try:
                    t.to_hdf5(fh, 'verif')
                finally:
                    fh.close()
        except Exception:
            if strict:
                raise Refuse()      # what can be exported is the business of C01-C04
        return Res(t, m, True)
    if n == 'eq':
        t == t.copy()
        t.descriptive_equality(t.copy())
        return Res(t, m, True)
    # ------------------------------------------------------------ binary
    if n == 'merge':
        if strict and (not m.o or not m.c):
            raise Refuse()      # outside C09's 1..N x 1..M operand domain
        pt, pm = partner('overlap')
        exp = None
        if strict:
            try:
                exp = MD.merge(m, pm, op[1], op[2])
            except ModelRefuse:
                raise Refuse()
        _watch('merge-partner', pt)
        return Res(t.merge(pt, sample=op[1], observation=op[2]), exp, False, order=('set', 'set'))
    if n == 'merge_self':
        if strict and (not m.o or not m.c):
            raise Refuse()
        return Res(t.merge(_watch('merge-self-copy', t.copy())),
                   X(lambda: MD.merge(m, m, 'union', 'union')), False, order=('set', 'set'))
    if n == 'concat':
        ax = op[1]
        pt, pm = partner('disjoint')
        exp = None
        if strict:
            try:
                exp = MD.concat([m, pm], ax)
            except ModelRefuse:
                raise Refuse()
        order = ('set', 'exact') if ax == 'sample' else ('exact', 'set')
        _watch('concat-partner', pt)
        return Res(t.concat([pt], axis=ax), exp, False, order=order)
    if n == 'concat_mix':
        if not m.o or not m.c:
            raise Refuse()
        if strict and 'q1' in m.c:
            raise Refuse()
        o = m.o[::-1]
        pm = M(o, ['q1'], [[float(i + 1)] for i in range(len(o))])
        pt = Table(np.array(pm.m), o, ['q1'])
        _watch('concat-partner', pt)
        return Res(biom.concat([t, pt]), X(lambda: MD.concat([m, pm], 'sample')), False,
                   order=('set', 'exact'))
    if n in ('collapse', 'collapse_md'):
        ax = op[1]
        if strict and (not m.ids(ax) or not m.o or not m.c):
            raise Refuse()
        if n == 'collapse':
            return Res(t.collapse(lambda i, md: i[0], norm=False, axis=ax),
                       X(lambda: m.collapse(ax, lambda i, md: i[0])), False)
        if strict and m.md(ax) is None:
            raise Refuse()
        lab = (lambda i, md: str(_mdval(md)))
        return Res(t.collapse(lab, axis=ax), X(lambda: m.collapse(ax, lab, norm=True)), False)
    if n == 'partition_re':
        # the first part, with the vectors that are empty in it removed
        ax = op[1]
        if strict and not m.ids(ax):
            raise Refuse()
        labf = (lambda i, md: i[-1])
        parts = list(t.partition(labf, axis=ax, remove_empty=True))
        g = m.groups(ax, labf)
        if not parts:
            raise Refuse()
        return Res(parts[0][1], X(lambda: m.filter_idx(ax, g[list(g)[0]]).remove_empty('whole')), False)
    if n == 'partition':
        ax, which = op[1], op[2]
        if strict and not m.ids(ax):
            raise Refuse()
        labf = (lambda i, md: i[-1])
        parts = list(t.partition(labf, axis=ax))
        g = m.groups(ax, labf)
        labs = list(g)
        if strict and [p for p, _ in parts] != labs:
            raise MonitorError('partition labels %r, expected %r' % ([p for p, _ in parts], labs))
        if which >= len(parts):
            raise Refuse()
        return Res(parts[which][1], X(lambda: m.filter_idx(ax, g[labs[which]])), False)
    if n == 'align':
        if not m.o or not m.c:
            raise Refuse()
        oth = t.sort_order(list(t.ids())[::-1]).sort_order(list(t.ids('observation'))[::-1],
                                                           axis='observation')
        _watch('align-partner', oth)
        return Res(t.align_to(oth, axis='both'),
                   X(lambda: m.sort_order('sample', m.c[::-1]).sort_order('observation', m.o[::-1])),
                   False)
    if n in ('subs_id', 'subs_id1'):
        ax = op[1]
        if strict and not m.nonneg():
            raise Refuse()      # outside C12's non-negative count domain
        if n == 'subs_id':
            r = t.subsample(len(m.ids(ax)) + 1, axis=ax, by_id=True, seed=1)
            return Res(r, X(lambda: m.remove_empty(other(ax))), False)
        if not m.ids(ax):
            raise Refuse()
        r = t.subsample(1, axis=ax, by_id=True, seed=2)
        if not strict:
            return Res(r, None, False)
        got = [str(i) for i in r.ids(ax)]
        if len(got) > 1 or any(i not in m.ids(ax) for i in got):
            raise MonitorError('subsample by id (n=1) kept %r of %r' % (got, m.ids(ax)))
        mm = m.filter_ids(ax, got)
        return Res(r, mm.remove_empty(other(ax)), False)
    if n == 'subs_wr':
        _, ax, depth, seed = op
        if strict or not _ints(m) or not m.o or not m.c:
            raise Refuse()      # judged exhaustively in C12; here it only produces states
        return Res(t.subsample(depth, axis=ax, with_replacement=True, seed=seed), None, False)
    if n == 'collapse_otm':
        ax = op[1]
        if strict:
            raise Refuse()      # judged in C11
        def paths(i, md):
            for g in (i[0], i[-1], i[0]):
                yield ([g], g)
        return Res(t.collapse(paths, norm=False, one_to_many=True, one_to_many_mode='divide', axis=ax),
                   None, False)
    if n == 'align_detect':
        if not m.o or not m.c:
            raise Refuse()
        oth = t.sort_order(list(t.ids())[::-1])
        _watch('align-partner', oth)
        return Res(t.align_to(oth), X(lambda: m.sort_order('sample', m.c[::-1])), False)
    if n == 'subs':
        _, ax, depth, seed = op
        if not _ints(m) or not m.o or not m.c:
            raise Refuse()      # count subsampling is stated for non-negative integer tables
        r = t.subsample(depth, axis=ax, seed=seed)
        if not strict:
            return Res(r, None, False)
        # constraint check, then the model adopts the environment's answer
        ids = m.ids(ax)
        keep = [i for i in range(len(ids)) if sum(m.vec(ax, i)) >= depth]
        rids = [str(i) for i in r.ids(ax)]
        am = adopt(r)
        if rids != [ids[i] for i in keep] and am.ids(other(ax)):
            raise MonitorError('subsample kept %r, expected %r' % (rids, [ids[i] for i in keep]))
        for j, i in enumerate(keep):
            v = am.vec(ax, j)
            if sum(v) != depth:
                raise MonitorError('subsampled vector %s sums to %r, not %d' % (ids[i], sum(v), depth))
            full = dict(zip(m.ids(other(ax)), m.vec(ax, i)))
            for oid, x in zip(am.ids(other(ax)), v):
                if x != int(x) or x < 0 or x > full.get(oid, 0):
                    raise MonitorError('subsampled entry %r for (%s,%s) outside [0,%r]'
                                       % (x, ids[i], oid, full.get(oid)))
        if am.empties(other(ax)):
            raise MonitorError('subsample left an all-zero vector on the other axis')
        kept_other = set(am.ids(other(ax)))
        if [x for x in m.ids(other(ax)) if x in kept_other] != am.ids(other(ax)):
            raise MonitorError('subsample reordered the other axis')
        mo = m.filter_ids(ax, rids).filter_ids(other(ax), kept_other)
        am.omd, am.smd, am.type = mo.omd, mo.smd, mo.type
        am._norm_md()
        return Res(r, am, False)
    raise KeyError(n)
