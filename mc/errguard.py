"""The process-global biom error profile is harness-owned nondeterminism."""
DEFAULT = None


def reset():
    global DEFAULT
    import biom.err as err
    if DEFAULT is None:
        DEFAULT = dict(err.geterr())
    err.seterr(**DEFAULT)


def assert_default(run):
    import biom.err as err
    if DEFAULT is not None and dict(err.geterr()) != DEFAULT:
        run.acc.violation('HARNESS-PROFILE-LEAK', 'error profile at end of run %r != defaults %r'
                          % (dict(err.geterr()), DEFAULT), {})
        err.seterr(**DEFAULT)
