"""Observation of real Table objects.

`content` goes through public accessors only (ids, metadata, type, matrix_data.toarray()).
`concrete_key` additionally reads the private lookup dicts and sparse arrays, read-only:
it is the canonical (deduplication) key of the explicit-state search and is deliberately
not abstracted – CSR/CSC, unsorted indices and stored zeros change the future.
"""
import numpy as np

from .core import h64


def freeze(x):
    """Hashable, order-normalised image of a metadata value."""
    if isinstance(x, dict):
        return ('D',) + tuple(sorted(((str(k), freeze(v)) for k, v in x.items()),
                                     key=lambda kv: kv[0]))
    if isinstance(x, (list, tuple)):
        return ('L',) + tuple(freeze(v) for v in x)
    if isinstance(x, np.ndarray):
        return freeze(x.tolist())
    if isinstance(x, np.generic):
        return freeze(x.item())
    if isinstance(x, bytes):
        return ('B', x)
    if isinstance(x, bool):
        return ('b', x)
    if isinstance(x, (int, float)):
        return ('n', float(x)) if x == x else ('nan',)
    return x


def norm_md(md):
    """None, or tuple of frozen dicts; an axis whose entries are all empty is None."""
    if md is None:
        return None
    out = tuple(freeze(dict(m)) if m else ('D',) for m in md)
    if all(e == ('D',) for e in out):
        return None
    return out


def ids(t, axis):
    return tuple(str(i) for i in t.ids(axis=axis))


def dense(t):
    a = t.matrix_data.toarray()
    return tuple(tuple(float(v) + 0.0 for v in row) for row in a)


def content(t):
    return (ids(t, 'observation'), ids(t, 'sample'), dense(t),
            norm_md(t.metadata(axis='observation')), norm_md(t.metadata(axis='sample')),
            t.type)


def content_key(t):
    return h64(content(t))


def raw_md(t, axis):
    md = t.metadata(axis=axis)
    return None if md is None else tuple(freeze(dict(m)) for m in md)


_KNOWN_FIELDS = frozenset((
    'type', 'table_id', 'create_date', 'generated_by', 'format_version', '_data', '_sample_ids',
    '_observation_ids', '_sample_metadata', '_observation_metadata', '_sample_group_metadata',
    '_observation_group_metadata', '_sample_index', '_obs_index'))


def _extra_fields(t):
    """any instance attribute this module does not know (a cache or memo added later) is part of the
    concrete state too: an over-fine key only costs time, a too-coarse one merges states with different
    futures"""
    d = getattr(t, '__dict__', {})
    return tuple(sorted((k, repr(v)[:300]) for k, v in d.items() if k not in _KNOWN_FIELDS))


def concrete_key(t):
    d = t._data
    fmt = d.format
    if fmt in ('csr', 'csc'):
        arrs = (d.data.tobytes(), d.indices.tobytes(), d.indptr.tobytes(),
                str(d.data.dtype), str(d.indices.dtype), bool(d.has_sorted_indices))
    elif fmt == 'coo':
        arrs = (d.data.tobytes(), d.row.tobytes(), d.col.tobytes())
    else:
        arrs = (repr(d.todok().items()),)
    parts = (fmt, d.shape, arrs,
             t._observation_ids.dtype.str, tuple(map(str, t._observation_ids)),
             t._sample_ids.dtype.str, tuple(map(str, t._sample_ids)),
             tuple(sorted((str(k), int(v)) for k, v in t._obs_index.items())),
             tuple(sorted((str(k), int(v)) for k, v in t._sample_index.items())),
             raw_md(t, 'observation'), raw_md(t, 'sample'), t.type, t.table_id, _extra_fields(t))
    return h64(parts)


def layout_class(t):
    d = t._data
    fmt = d.format
    srt = bool(getattr(d, 'has_sorted_indices', True)) if fmt in ('csr', 'csc') else None
    if fmt in ('csr', 'csc'):
        # has_sorted_indices may be a cached flag; recompute honestly
        srt = True
        for k in range(len(d.indptr) - 1):
            seg = d.indices[d.indptr[k]:d.indptr[k + 1]]
            if len(seg) > 1 and np.any(seg[1:] < seg[:-1]):
                srt = False
                break
    zeros = bool(np.any(d.data == 0)) if d.data.size else False
    return '%s/%s/%s' % (fmt, 'sorted' if srt else 'unsorted', 'stored0' if zeros else 'nostored0')


def bits(x):
    return np.float64(x).view(np.uint64).item()


def dense_bits(t):
    a = np.asarray(t.matrix_data.toarray(), dtype=np.float64)
    return tuple(tuple(int(v) for v in row) for row in a.view(np.uint64)) if a.size else \
        tuple(() for _ in range(a.shape[0]))
