"""C04 – written HDF5 files conform to the BIOM 2.1 layout; both matrix views agree.

Engine E2.  The table specs of C01's products A and B (mc/props/c01.py `spine`) plus
product E (tables with an empty axis: 0xM, Nx0, 0x0, reached by eight routes) are built on
the real code, observed just before writing, written by each writer, and the file is then
decoded and judged by `mc/h5spec.py` – a decoder written from the specification text with
raw h5py/numpy that shares no code with biom.  All-zero tables are mask 0 of every shape
in product A.

Writers: Table.to_hdf5 on an h5py.File on disk, the same on an in-memory (core driver)
file, biom.save_table(path) (goes through biom.util.biom_open(path, 'w')), and the
`biom convert --to-hdf5` click callback in process, fed with an HDF5 or a JSON input
file that the library itself wrote from the table.  For the convert writer the *source*
of the written file is the table `biom.load_table(input)` returns (observed by the
harness from the same input): whatever that table is, the file written from it must
conform and must hold exactly it.  Inputs the library cannot write or load are another
property's business and are counted as skipped.
"""
import json
import os

import numpy as np

from .. import domain as D
from .. import h5spec
from .. import observe as O
from .. import pipeline as P
from ..core import h64, vacuity
from . import c01

LEVEL = 'model_checking'
RULE = ('full cartesian products: C01\'s A (every sparsity mask of every shape, incl. all-zero, x every '
        'layout prefix) and B (id styles, metadata kinds, headers, group metadata, types on fixed masks) '
        'plus E (empty-axis shapes x 8 routes x id styles x metadata kinds), each x compress on/off x '
        'writers {to_hdf5 on disk, to_hdf5 in memory, save_table, convert callback from HDF5 / JSON '
        'input}; every written file is decoded by an independent raw-h5py decoder and checked clause by '
        'clause against the 2.1 specification and against the observation of the table written; a case '
        'is non-trivial when the table has a non-zero cell, non-default ids/metadata/header/group '
        'metadata, or an empty axis; distinct by case')

DIRECT_WRITERS = c01.WRITERS                       # to_hdf5, to_hdf5_core, save_table
CONVERT_WRITERS = ['convert:hdf5', 'convert:json']
WRITERS = DIRECT_WRITERS + CONVERT_WRITERS

E_SHAPES_QUICK = [(0, 1), (0, 2), (1, 0), (2, 0), (0, 0)]
E_SHAPES_THOROUGH = E_SHAPES_QUICK + [(0, 3), (3, 0)]
E_ROUTES = ['direct', 'csr_input', 'csc_input', 'coo_input', 'filter_inplace', 'filter_copy',
            'filter_predicate', 'TT']
E_STYLES = ['plain', 'nonascii']
E_MD = ['none', 'text', 'taxonomy']


# ------------------------------------------------------------------------- cases
def e_spine(tier):
    out = []
    for shape in (E_SHAPES_QUICK if tier == 'quick' else E_SHAPES_THOROUGH):
        for route in E_ROUTES:
            for st in E_STYLES:
                for mk in E_MD:
                    out.append({'prod': 'E', 'shape': list(shape), 'route': route, 'style': st, 'md': mk})
    return out


def cases(tier, seed):
    out = []
    for spec in c01.spine(tier, seed):
        for w in c01.writers_for(spec, tier):
            for comp in c01.compress_for(spec):
                out.append(dict(spec, writer=w, compress=comp))
        # the input file canonicalises the layout, so convert is enumerated on the fresh layout only;
        # a table that was loaded from a file cannot be re-written with group metadata (see report)
        if spec.get('layout') == 'csr' and not spec.get('gmd') and spec['prod'] not in ('B-full', 'A2'):
            for w in CONVERT_WRITERS:
                out.append(dict(spec, writer=w, compress=True))
    # SF: the first id has fewer categories than a later one - the writer may refuse (it does), but a file it
    # writes must hold the table's metadata
    for ax in ('obs_md', 'samp_md'):
        out.append(dict({'prod': 'SF', 'shape': [2, 3], 'mask': 0b110111, 'rot': 0, 'layout': 'csr', 'header': 1,
                         'writer': 'to_hdf5_core', 'compress': True}, **{ax: 'subsetfirst'}))
    # FS: a write with a caller-supplied per-category formatter, then an ordinary write in the same process
    for lay in ('csr', 'csc'):
        out.append({'prod': 'FS', 'shape': [2, 3], 'mask': 0b110111, 'rot': 0, 'layout': lay, 'obs_md': 'text',
                    'samp_md': 'text', 'header': 1, 'writer': 'to_hdf5_core', 'compress': True})
    # GL: list / tuple values under a category name that is not reserved (the general formatter decides the type)
    for kind in ('listgeneric', 'tuplegeneric'):
        for lay in ('csr', 'csc'):
            for w in DIRECT_WRITERS:
                out.append({'prod': 'GL', 'shape': [3, 2], 'mask': 0b110111, 'rot': 0, 'layout': lay, 'obs_md': kind,
                            'samp_md': kind, 'header': 1, 'writer': w, 'compress': True})
    for spec in e_spine(tier):
        for w in DIRECT_WRITERS:
            for comp in (True, False):
                out.append(dict(spec, writer=w, compress=comp))
        if spec['route'] == 'csr_input':
            for w in CONVERT_WRITERS:
                out.append(dict(spec, writer=w, compress=True))
    return out


# ------------------------------------------------------------------------- empty-axis tables
def build_empty(case):
    """A table of the requested shape (one or both axes empty) reached by the named route."""
    import scipy.sparse as sp
    from biom import Table
    N, M = case['shape']
    route, st, mk = case['route'], case['style'], case['md']

    def parts(n, m):
        oids = D.ids_for(st, 'observation', n)
        sids = D.ids_for(st, 'sample', m)
        omd = D.md_for(mk, 'observation', n) or None
        smd = D.md_for(mk, 'sample', m) or None
        return oids, sids, omd, smd

    if route.startswith('filter'):
        K, L = N or 2, M or 2
        oids, sids, omd, smd = parts(K, L)
        t = Table(np.array(D.matrix((K, L), (1 << (K * L)) - 1), dtype=float).reshape(K, L),
                  oids, sids, omd, smd)
        for axis, n in (('observation', N), ('sample', M)):
            if n:
                continue
            if route == 'filter_inplace':
                t.filter([], axis=axis)
            elif route == 'filter_copy':
                t = t.filter([], axis=axis, inplace=False)
            else:
                t = t.filter(lambda v, i, m: False, axis=axis, inplace=False)
        return t
    oids, sids, omd, smd = parts(N, M)
    Z = np.zeros((N, M))
    if route == 'direct':
        return Table(Z, oids, sids, omd, smd)
    if route == 'csr_input':
        return Table(sp.csr_matrix((N, M), dtype=float), oids, sids, omd, smd)
    if route == 'csc_input':
        return Table(sp.csc_matrix((N, M), dtype=float), oids, sids, omd, smd)
    if route == 'coo_input':
        return Table(sp.coo_matrix((N, M), dtype=float), oids, sids, omd, smd)
    if route == 'TT':
        return Table(sp.csr_matrix((N, M), dtype=float), oids, sids, omd, smd).transpose().transpose()
    raise KeyError(route)


def build(case):
    if case['prod'] == 'E':
        return build_empty(case)
    return c01.build(case)


# ------------------------------------------------------------------------- convert writer
CONVERT_KW = dict(sample_metadata_fp=None, observation_metadata_fp=None, to_json=False, to_hdf5=True,
                  to_tsv=False, collapsed_samples=False, collapsed_observations=False, header_key=None,
                  output_metadata_id=None, table_type=None, process_obs_metadata=None,
                  tsv_metadata_formatter='sc_separated')


def is_nontrivial(case, src):
    if case['prod'] == 'E':
        return True
    return c01.is_nontrivial(case, src)


def count_factors(acc, case, t):
    if case['prod'] != 'E':
        c01.count_factors(acc, case, t)
        return
    acc.count('prod:E')
    acc.count('route:' + case['route'])
    acc.count('layout:' + O.layout_class(t))
    acc.count('shape:%dx%d' % tuple(case['shape']))
    acc.count('compress:' + ('on' if case.get('compress', True) else 'off'))
    acc.count('writer:' + case['writer'])
    acc.count('style:' + case['style'])
    acc.count('md:' + case['md'])


# ------------------------------------------------------------------------- the check
def check(case, acc, tmp):
    import h5py
    try:
        t = build(case)
    except Exception as e:       # the route / layout prefix itself failed: another property's business
        acc.count('skipped:build-raised:%s' % type(e).__name__)
        return
    if t is None:
        acc.count('skipped:layout-not-applicable')
        return
    acc.trans += 1
    if tuple(t.shape) != (len(t.ids(axis='observation')), len(t.ids())):
        # an incoherent table (shape disagrees with its own id lists) is C05's finding, not a
        # table of this property's domain: nothing written from it is judged
        acc.count('skipped:incoherent-source-table')
        return
    w = case['writer']
    tag = '%016x' % h64(json.dumps(case, sort_keys=True))
    if case['prod'] == 'FS':
        # first a write that passes its own formatter for the category 'label' ...
        def shout(grp, header, md, compression):
            grp.create_dataset('metadata/%s' % header, shape=(len(md),), dtype=h5py.special_dtype(vlen=str),
                               data=[('!' + str(m[header])).encode('utf8') for m in md], compression=compression)
        fh0 = h5py.File('c04-fs-%d.h5' % os.getpid(), 'w', driver='core', backing_store=False)
        try:
            t.to_hdf5(fh0, 'verif', format_fs={'label': shout})
        finally:
            fh0.close()
        # ... then the ordinary write below must hold the table's own values again

    def bad(sig, detail):
        acc.violation(sig, '[%s] %s' % (w, detail), case)

    art = None
    inp = None
    try:
        if w.startswith('convert:'):
            from biom import load_table
            from biom.cli.table_converter import convert
            kind = w.split(':')[1]
            inp = os.path.join(tmp, 'c04in_%s.biom' % tag)
            acc.trans += 1
            try:
                if kind == 'hdf5':
                    with h5py.File(inp, 'w') as fh:
                        t.to_hdf5(fh, 'verif-input', creation_date=c01.DATE)
                else:
                    text = t.to_json('verif-input', creation_date=c01.DATE)
                    with open(inp, 'w', encoding='utf-8') as fh:
                        fh.write(text)
            except Exception as e:
                acc.count('skipped:convert-input-unwritable:%s:%s' % (kind, type(e).__name__))
                return
            acc.trans += 1
            try:
                st = load_table(inp)
            except Exception as e:
                acc.count('skipped:convert-input-unloadable:%s:%s' % (kind, type(e).__name__))
                return
            src = c01.observe_source(st)
            count_factors(acc, case, st)
            outp = os.path.join(tmp, 'c04out_%s.biom' % tag)
            acc.trans += 1
            try:
                convert.callback(input_fp=inp, output_fp=outp, **CONVERT_KW)
            except Exception as e:
                if os.path.exists(outp):
                    os.unlink(outp)
                bad('writer-raised:%s:%s' % (w, type(e).__name__),
                    'convert callback raised %s: %s' % (type(e).__name__, str(e)[:300]))
                return
            art = c01.Written(path=outp)
            del st
        else:
            count_factors(acc, case, t)
            src = c01.observe_source(t)
            gen = src['generated_by'] if src['generated_by'] is not None else c01.GEN_DEFAULT
            acc.trans += 1
            try:
                art = c01.write(t, case, gen, tmp, 'c04')
            except Exception as e:
                if case['prod'] == 'SF' and isinstance(e, ValueError):
                    acc.count('clause:uneven-categories-refused')
                    return
                bad('writer-raised:%s:%s' % (w, type(e).__name__),
                    '%s raised %s: %s' % (w, type(e).__name__, str(e)[:300]))
                return
        if is_nontrivial(case, src):
            acc.nontrivial.add(h64(json.dumps(case, sort_keys=True)))
        judge(art, src, acc, bad)
        # GL is judged on the file written from the caller's table only: the reader hands generic list categories
        # back as padded arrays, which are outside the table domain (C01 excludes them) - see DESIGN section 10
        if case['prod'] not in ('A', 'GL') and w == 'to_hdf5':
            second_generation(art, acc, bad)
    finally:
        if art is not None:
            art.close()
        if inp is not None and os.path.exists(inp):
            os.unlink(inp)


def second_generation(art, acc, bad):
    """the file is loaded and the loaded table written again (what every command that edits a file does): the
    second file must conform as well and hold what the loaded table holds"""
    import h5py
    from biom import Table
    acc.trans += 2
    try:
        if art.handle is not None:
            r = Table.from_hdf5(art.handle)
        else:
            with h5py.File(art.path, 'r') as fh:
                r = Table.from_hdf5(fh)
        src2 = c01.observe_source(r)
    except Exception as e:
        acc.count('skipped:second-generation-unloadable:' + type(e).__name__)      # C01's business
        return
    fh = h5py.File('c04-gen2-%d-%d.h5' % (os.getpid(), id(r)), 'w', driver='core', backing_store=False)
    try:
        try:
            r.to_hdf5(fh, src2['generated_by'] if src2['generated_by'] is not None else c01.GEN_DEFAULT,
                      creation_date=c01.DATE)
        except Exception as e:
            bad('second-generation:writer-raised:' + type(e).__name__, 'a table loaded from a written file cannot be '
                'written again: %s: %s' % (type(e).__name__, str(e)[:300]))
            return
        try:
            dec = h5spec.decode(fh)
        except Exception as e:
            bad('second-generation:undecodable:' + type(e).__name__, 'the raw-h5py decoder cannot walk the second '
                'file: %s' % e)
            return
    finally:
        fh.close()
    probs = list(dec['problems']) + list(h5spec.compare(dec, src2))
    for clause, detail in probs[:4]:
        bad('second-generation:' + clause, 'file written from the loaded table: ' + detail)
    if not probs:
        acc.count('clause:second-generation')


def judge(art, src, acc, bad):
    acc.evals += 1
    try:
        dec = h5spec.decode(art.handle if art.handle is not None else art.path)
    except Exception as e:
        bad('undecodable:%s' % type(e).__name__, 'the raw-h5py decoder cannot open / walk the file: %s: %s'
            % (type(e).__name__, str(e)[:300]))
        return
    for clause, detail in dec['problems']:
        bad(clause, detail)
    acc.evals += 1
    for clause, detail in h5spec.compare(dec, src):
        bad(clause, detail)
    # ---- which clauses had something to bite on
    n_o, n_s = len(src['obs_ids']), len(src['samp_ids'])
    nz = sum(1 for row in src['bits'] for b in row if b)
    acc.count('clause:attributes')
    acc.count('clause:groups-and-datasets')
    acc.count('clause:dtype-matrix')
    acc.count('clause:dtype-ids')
    if n_o == 0 or n_s == 0:
        acc.count('clause:dtype-ids:zero-length')
        acc.count('class:empty-axis')
    if nz == 0:
        acc.count('clause:dtype-matrix:zero-length')
        acc.count('class:all-zero')
    acc.count('clause:shape')
    acc.count('clause:nnz')
    if nz:
        acc.count('clause:nnz-positive')
    acc.count('clause:ids-vs-source')
    if any(ord(ch) > 127 for i in src['obs_ids'] + src['samp_ids'] for ch in i):
        acc.count('clause:ids-vs-source:non-ascii')
    for axis, key in (('observation', 'obs_md'), ('sample', 'samp_md')):
        if dec[axis].get('metadata'):
            acc.count('clause:metadata-length')
        if src[key] is not None:
            acc.count('clause:metadata-values')
        if dec[axis].get('group_metadata'):
            acc.count('clause:group-metadata')
    if dec['observation'].get('dense') is not None:
        acc.count('clause:csr-wellformed')
    if dec['sample'].get('dense') is not None:
        acc.count('clause:csc-wellformed')
    if dec['observation'].get('dense') is not None and dec['sample'].get('dense') is not None:
        acc.count('clause:csr-vs-csc')
        acc.count('clause:matrix-vs-source')
        if nz:
            acc.count('clause:matrix-vs-source:non-zero')
    # ---- states / outcomes
    key = h64((dec['attrs'].get('shape'), dec['attrs'].get('nnz'), dec['attrs'].get('type'),
               dec['attrs'].get('id'), dec['attrs'].get('generated-by'),
               dec['observation'].get('ids'), dec['sample'].get('ids'),
               None if dec['observation'].get('dense') is None else dec['observation']['dense'].tobytes(),
               repr(dec['observation'].get('metadata')), repr(dec['sample'].get('metadata')),
               repr(dec['observation'].get('group_metadata')), repr(dec['sample'].get('group_metadata')),
               tuple((n, None if a is None else a.tobytes())
                     for ax in ('observation', 'sample')
                     for n, a in sorted((dec[ax].get('matrix') or {}).items()))))
    acc.states.add(key)
    acc.outcomes.add(h64((dec['observation'].get('ids'), dec['sample'].get('ids'),
                          None if dec['observation'].get('dense') is None
                          else dec['observation']['dense'].tobytes(),
                          repr(dec['observation'].get('metadata')), repr(dec['sample'].get('metadata')))))


def bound(tier):
    b = c01.bound(tier)
    b['A']['writers'] = DIRECT_WRITERS + ["convert:hdf5 / convert:json on layout 'csr' only (the input "
                                          "file canonicalises the layout), compress on"]
    del b['A']['loaders']
    del b['B']['loaders']
    b['B']['writers'] += ("; plus both convert writers wherever layout == 'csr' and no group metadata "
                          "(not on B-full)")
    if b.get('A2'):
        del b['A2']['loaders']
    b['E'] = {'shapes': E_SHAPES_QUICK if tier == 'quick' else E_SHAPES_THOROUGH, 'routes': E_ROUTES,
              'id_styles': E_STYLES, 'metadata_kinds_on_non_empty_axes': E_MD, 'compress': [True, False],
              'writers': DIRECT_WRITERS + ["convert:* on route 'csr_input' only"],
              'note': "route 'direct' hands the constructor a dense numpy array; for 0x1 and 1x0 the "
                      "constructor refuses that input (counted under skipped:build-raised)"}
    b['all-zero'] = 'mask 0 of every shape of product A, every layout, writer, compress setting'
    b['oracle'] = 'mc/h5spec.py decode + conformance + compare (raw h5py, no biom import)'
    return b


# ----------------------------------------------------------------------------- histories
def history_conformance(t, m, report):
    """the file written in every state the history explorer reaches is decoded by the spec reader"""
    import h5py
    import numpy as np
    dense = np.asarray(t.matrix_data.toarray(), float)
    if dense.size and not np.isfinite(dense).all():
        return
    if tuple(t.shape) != (len(t.ids('observation')), len(t.ids())):
        return          # incoherent source: C05's business
    if not c01.md_in_domain(t):
        report.count('history:skipped-metadata-outside-domain')
        return
    def one_write(tag):
        src = c01.observe_source(t)
        fh = h5py.File('c04-hist-%d-%d.h5' % (os.getpid(), id(t)), 'w', driver='core', backing_store=False)
        try:
            try:
                t.to_hdf5(fh, 'verif', creation_date=c01.DATE)
            except Exception as e:
                report('history:writer-raised:' + type(e).__name__, '%sto_hdf5 raised %s: %s' % (tag, type(e).__name__, e))
                return False
            try:
                dec = h5spec.decode(fh)
            except Exception as e:
                report('history:undecodable:' + type(e).__name__, '%sthe raw-h5py decoder cannot walk the file: %s' % (tag, e))
                return False
        finally:
            fh.close()
        probs = list(dec['problems']) + list(h5spec.compare(dec, src))
        for clause, detail in probs[:3]:
            report('history:' + clause, tag + detail)
        return not probs

    if not one_write(''):
        return
    report.count('clause:history-conformance')
    # the same object is written again after its values changed in place (a writer must not remember anything
    # about the matrix it wrote before)
    if 0 in t.shape:
        return
    for ax in ('sample', 'observation'):
        try:
            t.transform(lambda v, i, md: v * 2 + 1, axis=ax, inplace=True)
        except Exception:
            return          # C13's business
        if not one_write('second write of the same object after an in-place transform along %s: ' % ax):
            return
    report.count('clause:history-rewrite')
    # ... and into the very same open file: refused (the names exist), or the file holds the table as it is now
    src0 = None
    fh = h5py.File('c04-hist2-%d-%d.h5' % (os.getpid(), id(t)), 'w', driver='core', backing_store=False)
    try:
        try:
            t.to_hdf5(fh, 'verif', creation_date=c01.DATE)
            t.transform(lambda v, i, md: v * 3 + 2, axis='sample', inplace=True)
            src0 = c01.observe_source(t)
        except Exception:
            return
        try:
            t.to_hdf5(fh, 'verif', creation_date=c01.DATE)
        except Exception:
            report.count('clause:history-same-file-refused')
            return
        try:
            dec = h5spec.decode(fh)
        except Exception as e:
            report('history:same-file:undecodable:' + type(e).__name__, 'second write into the same open file: %s' % e)
            return
    finally:
        fh.close()
    probs = list(dec['problems']) + list(h5spec.compare(dec, src0))
    for clause, detail in probs[:3]:
        report('history:same-file:' + clause, 'second write into the same open file after an in-place change: ' + detail)
    if not probs:
        report.count('clause:history-same-file-rewritten')


def history_spec(depth):
    from .. import explorer as E
    from .. import ops as OPS
    return E.Spec(OPS.start_tables(), OPS.all_ops(), depth, check_ops=(), on_state=history_conformance,
                  label='histories-d%d' % depth)


def run(run):
    from .. import explorer as E
    E.explore(run, history_spec(2 if run.quick else 3))
    cs = cases(run.tier, run.seed)
    P.run_cases(run, cs, check)
    c = run.acc.counters
    run.extra['products'] = {k[5:]: v for k, v in c.items() if k.startswith('prod:')}
    run.extra['layout_classes'] = {k[7:]: v for k, v in c.items() if k.startswith('layout:')}
    run.extra['skipped'] = {k[8:]: v for k, v in c.items() if k.startswith('skipped:')}
    run.extra['bound'] = bound(run.tier)
    run.extra['cases'] = len(cs)
    need = ['clause:' + x for x in (
        'attributes', 'groups-and-datasets', 'dtype-matrix', 'dtype-ids', 'dtype-ids:zero-length',
        'dtype-matrix:zero-length', 'shape', 'nnz', 'nnz-positive', 'ids-vs-source',
        'ids-vs-source:non-ascii', 'metadata-length', 'metadata-values', 'group-metadata',
        'csr-wellformed', 'csc-wellformed', 'csr-vs-csc', 'matrix-vs-source',
        'matrix-vs-source:non-zero')]
    need += ['class:empty-axis', 'class:all-zero', 'clause:history-conformance', 'clause:history-rewrite', 'clause:second-generation']
    need += ['writer:' + x for x in WRITERS] + ['compress:on', 'compress:off']
    need += ['prod:' + p for p in ('A', 'B-ids', 'B-md', 'B-x', 'B-hdr', 'B-type', 'E')]
    need += ['route:' + r for r in E_ROUTES]
    need += ['style:' + s for s in D.ID_STYLES] + ['md:' + k for k in D.MD_KINDS]
    need += ['layoutname:' + x for x in D.LAYOUTS]
    need += ['shape:%dx%d' % s for s in (E_SHAPES_QUICK if run.quick else E_SHAPES_THOROUGH)]
    vacuity(run, need)
    run.assumptions += [
        'h5py itself (raw reads) and numpy are trusted; mc/h5spec.py never imports biom or scipy',
        'the compressed-row offsets array has #observations+1 entries, the compressed-column one '
        '#samples+1 (the letters N/M in the spec text are swapped against its own ids lines)',
        'type is only required to be a string (an absent type is written as ""; convert writes "Table")',
        'metadata category names containing "/" cannot be HDF5 link names: for them only existence of '
        'one otherwise unexplained dataset holding the right values per id is demanded',
        'convert writer: source = biom.load_table(input) as observed by the harness; inputs the '
        'library cannot write/load are counted under coverage.skipped, not judged',
        'creation_date is passed explicitly to the direct writers; the convert callback uses '
        'datetime.now() and its attribute is only required to be ISO 8601',
    ]


def replay(case):
    if 'history' in case:
        from .. import explorer as E
        return E.replay_history(history_spec(len(case['history'])), case)
    return P.replay_case(check, case)
