"""C03 – classic tab-separated export / import round trip preserves ids and values.

Engine E2.  Every table spec of five exhaustive products is exported by every writer
(`to_tsv()`, `to_tsv(direct_io=)`, `str(table)`, `biom convert --to-tsv` callback with an
HDF5 and a JSON input file); each text is first decoded by an independent 20-line decoder
that knows the requested structure (so a writer fault is blamed on the writer), then fed to
every reader (`from_tsv` on list of lines with / without terminators, on a StringIO and on a
real file handle, `load_table` on a path and on a gzip path, `parse_table` on a handle,
`biom convert` TSV->HDF5 and TSV->JSON followed by `load_table`).

Oracle: ids in order, values bit-identical (`observe.dense_bits`), and - when one
observation-metadata category was exported through a formatter - that category equal after
the inverse processing function.  Nothing else is demanded (sample metadata, type, the
non-exported categories, equality of the texts of different writers are not part of C03).

Stages that belong to other properties are guarded so that their defects are not reported
here: the BIOM input file of `convert --to-tsv` must load back faithfully (else the case is
counted as skipped), and a deviation seen after `convert` TSV->HDF5/JSON is only reported
when the same table written directly in that format loads back faithfully (control run).
"""
import gzip
import io
import itertools
import json
import os
import subprocess

import numpy as np

from .. import domain as D
from .. import observe as O
from .. import pipeline as P
from ..core import REPO, h64, vacuity

LEVEL = 'model_checking'
RULE = ('full cartesian products (A: every sparsity mask of every shape x every layout prefix x '
        '{no metadata column, exported taxonomy}; CV: every mask x {none, taxonomy, ragged taxonomy} '
        'incl. the convert writers/readers; B-ids: id style x id style on fixed masks incl. '
        'single-sample / single-observation / all-zero; B-md: metadata kind x exported? x column '
        'name x sample metadata x id style; V: every value of the pool, both signs, in every cell '
        'position of 1x1 / 1x2 / 2x1) x every writer x every reader, all executed on the real code; '
        'a case is non-trivial when the table has a non-zero cell or non-plain ids or an exported '
        'category; distinct by table spec')

BIOM_EXE = '/venv/bin/biom'

# values beyond domain.HARD that stress shortest-repr / exponent notation
EXTRA = [1e16, 1.7976931348623157e308, 2.2250738585072014e-308, 123456789012345680.0, 0.0001,
         0.00001, 1e22, 1e23, 4.35, 0.1 + 0.2, 2.0 ** -1074 * 3, 100000.0, 1e15 + 0.3]

WRITERS = ['to_tsv', 'direct_io', 'str', 'convert_h5in', 'convert_jsonin']
CHEAP_WRITERS = WRITERS[:3]
READERS = ['lines', 'lines_nl', 'lines_blank_end', 'stringio', 'stringio_blank_end', 'file_handle', 'load_path',
           'load_gz', 'parse_handle', 'lines_twice', 'lines_nl_mdparse', 'load_gz_noext',
           'convert_hdf5', 'convert_json']
CHEAP_READERS = READERS[:12]


# ------------------------------------------------------------------------- id styles
OWN_STYLES = ['hashmid', 'numlike', 'headerlike']


def ids_for(style, axis, n):
    if style in D.ID_STYLES:
        return D.ids_for(style, axis, n)
    o = axis == 'observation'
    if style == 'hashmid':          # '#' anywhere but at the start
        return (['a#1', 'b #2', 'c#'] if o else ['x#1', 'y #2', 'z#'])[:n]
    if style == 'numlike':          # text float() accepts or nearly accepts
        return (['1_0', '+5', '.5', '0x10'] if o else ['-inf', 'NaN', '1.', '1e'])[:n]
    if style == 'headerlike':       # ids that look like pieces of the header / comment lines
        return (['OTU ID', 'Constructed from biom file', 'taxonomy'] if o
                else ['OTU ID', 'taxonomy', 'Consensus Lineage'])[:n]
    raise KeyError(style)


def in_domain(i):
    """the property's id domain: no tab/newline, not starting with '#', no leading/trailing blanks"""
    return bool(i) and not any(c in i for c in '\t\n\r') and not i.startswith('#') and i == i.strip()


def admissible_styles():
    ok, dropped = [], []
    for st in D.ID_STYLES + OWN_STYLES:
        ids = ids_for(st, 'observation', 3) + ids_for(st, 'sample', 3)
        (ok if all(in_domain(i) for i in ids) else dropped).append(st)
    return ok, dropped


# ------------------------------------------------------------------------- metadata export
SC = 'sc'          # hierarchical list <-> '; '.join
NAIVE = 'naive'    # plain text, identity both ways
NAIVE_NONE = 'naive_none'      # text categories that are missing on some observations: None <-> 'NA'
FORMAT = {SC: lambda x: '; '.join(x), NAIVE: lambda x: x, NAIVE_NONE: lambda x: 'NA' if x is None else x}
INVERSE = {SC: lambda s: [e.strip() for e in s.split(';')], NAIVE: lambda s: s,
           NAIVE_NONE: lambda s: None if s == 'NA' else s}
CLI_FMT = {SC: 'sc_separated', NAIVE: 'naive'}
CLI_PROC = {SC: 'taxonomy', NAIVE: 'naive'}
EXPORT_OF = {'taxonomy': ('taxonomy', SC), 'taxonomy_ragged': ('taxonomy', SC), 'taxonomy_gap': ('taxonomy', SC),
             'text': ('label', NAIVE), 'two': ('label', NAIVE), 'text_partial': ('label', NAIVE_NONE)}


def is_number(s):
    try:
        float(s)
        return True
    except ValueError:
        return False


# ------------------------------------------------------------------------- cases
FIXED = [((2, 3), 0b111111), ((3, 2), 0b100110), ((1, 1), 1), ((1, 3), 0b101), ((3, 1), 0b110),
         ((2, 2), 0), ((1, 2), 0b10)]
SINGLES = [(1, 3), (3, 1)]


def fixed_masks(tier):
    """spine of the B products; the quick tier cuts this factor from 7 to 5 tables (general 2x3,
    1x1, single observation, single sample, all-zero)"""
    return FIXED if tier != 'quick' else [FIXED[0], FIXED[2], FIXED[3], FIXED[4], FIXED[5]]


def tier_shapes(tier):
    sh = list(D.shapes(tier))
    for s in SINGLES:                       # single-observation / single-sample in both tiers
        if s not in sh:
            sh.append(s)
    return sh


def cases(tier, seed):
    out = []
    rot = seed % len(D.HARD)
    styles, _ = admissible_styles()
    shapes = tier_shapes(tier)
    for shape in shapes:
        for mask in D.masks(shape):
            for lay in D.LAYOUTS:
                pool = 'int' if lay == 'subsample_full' else 'hard'
                for md in ('none', 'taxonomy'):
                    out.append({'prod': 'A', 'shape': list(shape), 'mask': mask, 'rot': rot,
                                'pool': pool, 'layout': lay, 'obs_md': md, 'export': md != 'none',
                                'writers': CHEAP_WRITERS, 'readers': CHEAP_READERS})
    for shape in shapes:
        for mask in D.masks(shape):
            for md in ('none', 'taxonomy', 'taxonomy_ragged', 'taxonomy_gap'):
                out.append({'prod': 'CV', 'shape': list(shape), 'mask': mask,
                            'rot': (rot + 5) % len(D.HARD), 'pool': 'hard', 'layout': 'csr',
                            'obs_md': md, 'export': md != 'none',
                            'writers': WRITERS, 'readers': READERS})
    lays = ['csr', 'unsorted', 'csc'] if tier == 'quick' else D.LAYOUTS[:-1]
    for shape, mask in fixed_masks(tier):
        for so, ss in itertools.product(styles, repeat=2):
            for md in ('none', 'taxonomy'):
                out.append({'prod': 'B-ids', 'shape': list(shape), 'mask': mask, 'rot': rot,
                            'obs_style': so, 'samp_style': ss, 'obs_md': md, 'export': md != 'none',
                            'layout': lays[len(out) % len(lays)],
                            'writers': WRITERS, 'readers': READERS})
    for shape, mask in fixed_masks(tier):
        for md in ('taxonomy', 'taxonomy_ragged', 'taxonomy_gap', 'text', 'two'):
            for export in (True, False):
                for hv in ((None, 'Consensus Lineage') if export else (None,)):
                    for smd in ('none', 'text'):
                        for st in ('plain', 'numeric', 'punct', 'nonascii'):
                            out.append({'prod': 'B-md', 'shape': list(shape), 'mask': mask, 'rot': rot,
                                        'obs_style': st, 'samp_style': st, 'obs_md': md,
                                        'samp_md': smd, 'export': export, 'header_value': hv,
                                        'layout': lays[len(out) % len(lays)],
                                        'writers': WRITERS, 'readers': READERS})
    # the name of the observation-id column is the caller's choice (it need not start with '#')
    for shape, mask in fixed_masks(tier):
        for col in ('Taxon', 'Feature ID', '#NAME'):
            for md in ('none', 'taxonomy'):
                out.append({'prod': 'B-col', 'shape': list(shape), 'mask': mask, 'rot': rot, 'obs_md': md,
                            'export': md != 'none', 'obs_col': col, 'layout': 'csr',
                            'writers': ['to_tsv', 'direct_io'], 'readers': READERS})
    # the exported category missing (no metadata at all) on one observation only; through the API writers / readers
    api_readers = [r for r in READERS if not r.startswith('convert_')]
    for shape, mask in fixed_masks(tier):
        if shape[0] >= 2:
            for hv in (None, 'Consensus Lineage'):
                out.append({'prod': 'B-partial', 'shape': list(shape), 'mask': mask, 'rot': rot, 'obs_md': 'text_partial',
                            'export': True, 'header_value': hv, 'layout': 'csr',
                            'writers': ['to_tsv', 'direct_io'], 'readers': api_readers})
    # more observations than any block size a writer might use; single-precision sparse input
    out.append({'prod': 'B-big', 'shape': [230, 2], 'mask': int('110101' * 77, 2) & ((1 << 460) - 1), 'rot': rot,
                'obs_md': 'none', 'export': False, 'layout': 'csr', 'writers': ['to_tsv', 'direct_io'],
                'readers': ['lines', 'file_handle', 'load_path']})
    for k in range(len(D.HARD + EXTRA)):
        out.append({'prod': 'V32', 'shape': [1, 2], 'value_index': k, 'sign': -1 if k % 2 else 1, 'pos': k % 2,
                    'obs_md': 'none', 'export': False, 'writers': CHEAP_WRITERS, 'readers': CHEAP_READERS})
    for shape, zv in D.CANCEL:
        out.append({'prod': 'Z', 'shape': list(shape), 'zvals': list(zv), 'obs_md': 'none', 'export': False,
                    'writers': WRITERS, 'readers': READERS})
    vals = D.HARD + EXTRA
    for k, v in enumerate(vals):
        for sign in (1, -1):
            for shape in ((1, 1), (1, 2), (2, 1)):
                for pos in range(shape[0] * shape[1]):
                    out.append({'prod': 'V', 'shape': list(shape), 'value_index': k, 'sign': sign,
                                'pos': pos, 'obs_md': 'none', 'export': False,
                                'writers': CHEAP_WRITERS, 'readers': CHEAP_READERS})
    if tier == 'thorough':
        sub = []
        for (shape, mask), st, md in [
                (FIXED[0], 'plain', 'none'), (FIXED[0], 'plain', 'taxonomy'),
                (FIXED[1], 'nonascii', 'taxonomy'), (FIXED[1], 'numeric', 'none'),
                (FIXED[2], 'punct', 'taxonomy'), (FIXED[3], 'numeric', 'taxonomy_ragged'),
                (FIXED[4], 'numlike', 'none'), (FIXED[5], 'plain', 'none'),
                (FIXED[6], 'hashmid', 'taxonomy'), (FIXED[0], 'long', 'taxonomy')]:
            for fmt in ('hdf5', 'json'):
                sub.append({'prod': 'SUB', 'shape': list(shape), 'mask': mask, 'rot': rot,
                            'obs_style': st, 'samp_style': st, 'obs_md': md, 'export': md != 'none',
                            'layout': 'csr', 'fmt': fmt})
        out += sub                           # 20 cases = 40 genuine `biom convert` processes
    return out


# ------------------------------------------------------------------------- building
def build(case):
    """-> (Table | None, oids, sids)"""
    from biom import Table
    shape = tuple(case['shape'])
    if case['prod'] == 'Z':
        M = np.array(case['zvals'], float).reshape(shape)
        return Table(M, ids_for('plain', 'observation', shape[0]), ids_for('plain', 'sample', shape[1]))
    if case['prod'] == 'V32':
        # the caller holds the matrix as a single-precision scipy matrix; the table's values are those numbers
        import scipy.sparse as sp
        vals = D.HARD + EXTRA
        M = np.zeros(shape, np.float32)
        with np.errstate(over='ignore', under='ignore'):
            M.flat[case['pos']] = np.float32(case['sign'] * vals[case['value_index']])
            M.flat[1 - case['pos']] = np.float32(1) / np.float32(3)
        if not np.isfinite(M).all():
            return None
        return Table(sp.csr_matrix(M), ids_for('plain', 'observation', shape[0]), ids_for('plain', 'sample', shape[1]))
    if case['prod'] == 'V':
        vals = D.HARD + EXTRA
        M = np.zeros(shape)
        M.flat[case['pos']] = case['sign'] * vals[case['value_index']]
        return Table(M, ids_for('plain', 'observation', shape[0]), ids_for('plain', 'sample', shape[1]))
    so, ss = case.get('obs_style', 'plain'), case.get('samp_style', 'plain')
    spec = {k: v for k, v in case.items() if k in ('shape', 'mask', 'rot', 'pool', 'obs_md', 'samp_md',
                                                   'layout')}
    spec['obs_style'] = so if so in D.ID_STYLES else 'plain'
    spec['samp_style'] = ss if ss in D.ID_STYLES else 'plain'
    partial = spec.get('obs_md') == 'text_partial'
    if partial:
        spec['obs_md'] = 'text'
    t = D.build(spec)
    if t is None:
        return None
    if partial:
        omd = [None if i == 1 else dict(m) for i, m in enumerate(t.metadata(axis='observation'))]
        t = Table(t.matrix_data.copy(), [str(i) for i in t.ids('observation')], [str(i) for i in t.ids()], omd,
                  t.metadata(), type=t.type)
    # styles defined in this module: rename in place (keeps the layout prefix); the oracle
    # reads the ids back from the table, so it does not rely on update_ids being right
    for st, ax, n in ((so, 'observation', shape[0]), (ss, 'sample', shape[1])):
        if st not in D.ID_STYLES:
            new = ids_for(st, ax, n)
            t.update_ids(dict(zip([str(i) for i in t.ids(axis=ax)], new)), axis=ax, strict=True,
                         inplace=True)
    return t


def pyify(x):
    if isinstance(x, dict):
        return {str(k): pyify(v) for k, v in x.items()}
    if isinstance(x, (list, tuple)):
        return [pyify(v) for v in x]
    if isinstance(x, np.ndarray):
        return pyify(x.tolist())
    if isinstance(x, np.generic):
        return x.item()
    if isinstance(x, bytes):
        return x.decode('utf-8')
    return x


# ------------------------------------------------------------------------- independent decoder
def decode(text, ncol, md_name, obs_col=None):
    """Classic table text -> (sample ids, md column name, [(obs id, [value text], md text)]).
    Knows the structure that was requested (ncol value columns, optional metadata column), so
    no heuristics: leading '#' lines are comments, the last of them is the header -- unless a name not
    starting with '#' was requested for the id column: then the header is the first line after them."""
    lines = text.split('\n')
    if lines and lines[-1] == '':
        lines.pop()
    k = 0
    while k < len(lines) and lines[k].startswith('#'):
        k += 1
    if obs_col and not obs_col.startswith('#'):
        k += 1
        if k > len(lines):
            raise ValueError('no header line')
    if k == 0:
        raise ValueError('no header line')
    head = lines[k - 1].split('\t')
    if obs_col and head[0] != obs_col:
        raise ValueError('id column is named %r, %r was requested' % (head[0], obs_col))
    want = 1 + ncol + (1 if md_name is not None else 0)
    if len(head) != want:
        raise ValueError('header has %d fields, %d expected' % (len(head), want))
    rows = []
    for ln in lines[k:]:
        f = ln.split('\t')
        if len(f) != want:
            raise ValueError('data line has %d fields, %d expected: %r' % (len(f), want, ln[:80]))
        rows.append((f[0], f[1:1 + ncol], f[1 + ncol] if md_name is not None else None))
    return tuple(head[1:1 + ncol]), (head[1 + ncol] if md_name is not None else None), rows


def value_kind(got, exp):
    if got == 0 and exp != 0:
        return 'dropped'
    if exp == 0 and got != 0:
        return 'invented'
    return 'rounded'


def first_diff(gb, sb):
    for i, (ra, rb) in enumerate(zip(gb, sb)):
        for j, (a, b) in enumerate(zip(ra, rb)):
            if a != b:
                return i, j
    return None


# ------------------------------------------------------------------------- convert plumbing
def convert_cb(**kw):
    from biom.cli.table_converter import convert
    params = dict(input_fp=None, output_fp=None, sample_metadata_fp=None, observation_metadata_fp=None,
                  to_json=False, to_hdf5=False, to_tsv=False, collapsed_samples=False,
                  collapsed_observations=False, header_key=None, output_metadata_id=None,
                  table_type=None, process_obs_metadata=None, tsv_metadata_formatter='sc_separated')
    params.update(kw)
    return convert.callback(**params)


def write_native(t, fmt, path):
    from biom.cli.util import write_biom_table
    write_biom_table(t, fmt, path)


def faithful(r, oids, sids, bits, exp_md, name):
    """is r the source as far as C03 is concerned (ids, bits, the one category)"""
    if O.ids(r, 'observation') != oids or O.ids(r, 'sample') != sids or O.dense_bits(r) != bits:
        return False
    if exp_md is not None:
        md = r.metadata(axis='observation')
        if md is None:
            return False
        return [pyify(m.get(name)) for m in md] == exp_md
    return True


# ------------------------------------------------------------------------- the check
def check(case, acc, tmp):
    if case['prod'] == 'SUB':
        return check_sub(case, acc, tmp)
    from biom import Table, load_table, parse_table
    t = build(case)
    if t is None:
        acc.count('skipped:layout-not-applicable')
        return
    acc.count('prod:' + case['prod'])
    acc.count('layout:' + O.layout_class(t))
    acc.count('shape:%dx%d' % tuple(case['shape']))
    for k in ('obs_style', 'samp_style'):
        acc.count('style:' + case.get(k, 'plain'))
    acc.count('md:' + case.get('obs_md', 'none') + (':exported' if case['export'] else ':not-exported'))
    oids, sids = O.ids(t, 'observation'), O.ids(t, 'sample')
    for i in oids + sids:
        if not in_domain(i):
            raise AssertionError('id %r outside the property domain' % i)
    bits = O.dense_bits(t)
    dense = np.asarray(t.matrix_data.toarray(), float)
    key, fmt_name, name, exp_md = None, None, None, None
    if case['export']:
        key, fmt_name = EXPORT_OF[case['obs_md']]
        name = case.get('header_value') or key
        exp_md = [pyify(m.get(key)) for m in t.metadata(axis='observation')]      # .get: indexing a defaultdict entry would insert the key
        for e in exp_md:
            txt = FORMAT[fmt_name](e)
            if is_number(txt) or txt != txt.strip() or '\t' in txt or '\n' in txt:
                raise AssertionError('metadata text %r outside the property domain' % txt)
    inv = INVERSE[fmt_name] if fmt_name else (lambda x: x)
    ckey = h64(json.dumps(case, sort_keys=True))
    if np.count_nonzero(dense) or case['export'] or \
            any(case.get(k, 'plain') != 'plain' for k in ('obs_style', 'samp_style')):
        acc.nontrivial.add(ckey)
    base = os.path.join(tmp, 'c03_%016x' % ckey)

    def bad(sig, detail):
        acc.violation(sig, detail, case)

    def rm(*paths):
        for p in paths:
            try:
                os.unlink(p)
            except OSError:
                pass

    # ---------------------------------------------------------------- writers
    texts = {}
    for w in case['writers']:
        acc.trans += 1

        def badw(sig, detail, w=w):      # the recorded case names the one writer
            acc.violation(sig, detail, dict(case, writers=[w]))
        try:
            colkw = {'observation_column_name': case['obs_col']} if case.get('obs_col') else {}
            if w == 'to_tsv':
                s = t.to_tsv(header_key=key, header_value=name, metadata_formatter=FORMAT[fmt_name], **colkw) \
                    if key else t.to_tsv(**colkw)
                exported = bool(key)
            elif w == 'direct_io':
                buf = io.StringIO()
                if key:
                    t.to_tsv(header_key=key, header_value=name, metadata_formatter=FORMAT[fmt_name],
                             direct_io=buf, **colkw)
                else:
                    t.to_tsv(direct_io=buf, **colkw)
                s = buf.getvalue()
                exported = bool(key)
            elif w == 'str':
                s = str(t)
                exported = False
            else:
                fmt = 'hdf5' if w == 'convert_h5in' else 'json'
                src, dst = base + '.in.biom', base + '.out.tsv'
                rm(src, dst)
                # input stage belongs to C01/C02: guard it
                try:
                    write_native(t, fmt, src)
                    ok = faithful(load_table(src), oids, sids, bits, exp_md, key)
                except Exception:
                    ok = False
                if not ok:
                    acc.count('skipped:convert-input-unfaithful:' + fmt)
                    rm(src, dst)
                    continue
                acc.trans += 1
                kw = dict(input_fp=src, output_fp=dst, to_tsv=True)
                if key:
                    kw.update(header_key=key, output_metadata_id=case.get('header_value'),
                              tsv_metadata_formatter=CLI_FMT[fmt_name])
                convert_cb(**kw)
                with open(dst, encoding='utf-8') as fh:
                    s = fh.read()
                rm(src, dst)
                exported = bool(key)
        except Exception as e:
            badw('writer-raised:%s:%s' % (w, type(e).__name__),
                '%s raised %s: %s' % (w, type(e).__name__, str(e)[:200]))
            continue
        acc.count('writer:' + w)
        P.state(acc, 'text', w, s)
        # ---- independent decode of the text
        acc.evals += 1
        good = True
        try:
            d_sids, d_name, rows = decode(s, len(sids), name if exported else None, case.get('obs_col'))
            d_oids = tuple(r[0] for r in rows)
            d_vals = np.array([[float(x) for x in r[1]] for r in rows], float).reshape(len(rows), len(sids))
        except Exception as e:
            badw('text-structure:%s' % w, '%s: text cannot be decoded as a classic table (%s: %s); text=%r'
                % (w, type(e).__name__, e, s[:300]))
            continue
        if d_oids != oids:
            badw('text-ids:%s:observation' % w, '%s: text has observation ids %r, table %r' % (w, d_oids, oids))
            good = False
        if d_sids != sids:
            badw('text-ids:%s:sample' % w, '%s: text has sample ids %r, table %r' % (w, d_sids, sids))
            good = False
        if good:
            gb = tuple(tuple(int(v) for v in row) for row in d_vals.view(np.uint64)) if d_vals.size else \
                tuple(() for _ in rows)
            if gb != bits:
                i, j = first_diff(gb, bits)
                badw('text-values:%s:%s' % (w, value_kind(d_vals[i, j], dense[i, j])),
                    '%s: cell (%d,%d) is written as %r which parses to %r, table holds %r'
                    % (w, i, j, rows[i][1][j], float(d_vals[i, j]), float(dense[i, j])))
                good = False
            acc.count('clause:text-values')
        if exported:
            if d_name != name:
                badw('text-metadata:%s:column-name' % w, '%s: metadata column is named %r, requested %r'
                    % (w, d_name, name))
                good = False
            else:
                try:
                    back = [INVERSE[fmt_name](r[2]) for r in rows]
                except Exception:
                    back = None
                if back != exp_md:
                    badw('text-metadata:%s:content' % w, '%s: metadata column holds %r, expected (formatted) %r'
                        % (w, [r[2] for r in rows], exp_md))
                    good = False
            acc.count('clause:text-metadata')
        acc.count('clause:text-ids')
        if not good:
            acc.count('skipped:readers-after-bad-text')
            continue
        dup = [w0 for w0, (s0, e0) in texts.items() if s0 == s and e0 == exported]
        if dup:
            # the readers are functions of the text: an identical text is not read a second time
            acc.count('text-identical:%s=%s' % (w, dup[0]))
            continue
        texts[w] = (s, exported)

    # ---------------------------------------------------------------- readers
    for w, (s, exported) in texts.items():
        path, gz = base + '.tsv', base + '.tsv.gz'
        with open(path, 'w', encoding='utf-8') as fh:
            fh.write(s)
        with gzip.open(gz, 'wt', encoding='utf-8') as fh:
            fh.write(s)
        want_md = exp_md if exported else None
        for rd in case['readers']:
            acc.trans += 1
            acc.evals += 1
            processed = False        # did the library apply the inverse function itself
            out = None
            try:
                if rd == 'lines':
                    r = Table.from_tsv(s.splitlines(), None, None, inv)
                    processed = True
                elif rd == 'lines_nl':
                    r = Table.from_tsv(s.splitlines(True), None, None, inv)
                    processed = True
                elif rd == 'lines_twice':
                    # the caller's list of lines is an input: it is left as it was and can be parsed again
                    L = s.splitlines()
                    keep = list(L)
                    Table.from_tsv(L, None, None, inv)
                    if L != keep:
                        acc.violation('reader-modified-input:lines', 'from_tsv changed the list of lines it was given '
                                      '(%d lines before, %d after)' % (len(keep), len(L)),
                                      dict(case, writers=[w], readers=[rd]))
                        continue
                    r = Table.from_tsv(L, None, None, inv)
                    processed = True
                elif rd == 'lines_nl_mdparse':
                    # the inverse function handed over as the parser's md_parse keyword, lines with their terminators
                    r = Table.from_tsv(s.splitlines(True), None, None, lambda x: x, md_parse=inv)
                    processed = True
                elif rd == 'load_gz_noext':
                    # gzip content under a name that does not end in .gz
                    gz2 = base + '.tsv.gzipped'
                    with gzip.open(gz2, 'wt', encoding='utf-8') as fh:
                        fh.write(s)
                    try:
                        r = load_table(gz2)
                    finally:
                        rm(gz2)
                elif rd == 'lines_blank_end':
                    # what (text + '\n').split('\n') gives: a trailing empty string
                    r = Table.from_tsv(s.splitlines() + [''], None, None, inv)
                    processed = True
                elif rd == 'stringio':
                    r = Table.from_tsv(io.StringIO(s), None, None, inv)
                    processed = True
                elif rd == 'stringio_blank_end':
                    # the same text followed by an empty line, as many editors leave it
                    r = Table.from_tsv(io.StringIO(s + ('\n\n' if not s.endswith('\n') else '\n')), None, None, inv)
                    processed = True
                elif rd == 'file_handle':
                    with open(path, encoding='utf-8') as fh:
                        r = Table.from_tsv(fh, None, None, inv)
                    processed = True
                elif rd == 'load_path':
                    r = load_table(path)
                elif rd == 'load_gz':
                    r = load_table(gz)
                elif rd == 'parse_handle':
                    with open(path, encoding='utf-8') as fh:
                        r = parse_table(fh)
                else:
                    fmt = 'hdf5' if rd == 'convert_hdf5' else 'json'
                    out = base + '.conv.biom'
                    rm(out)
                    kw = dict(input_fp=path, output_fp=out, to_hdf5=(fmt == 'hdf5'), to_json=(fmt == 'json'))
                    if exported:
                        kw['process_obs_metadata'] = CLI_PROC[fmt_name]
                        processed = True
                    convert_cb(**kw)
                    acc.trans += 1
                    r = load_table(out)
            except Exception as e:
                if out is not None and not control_ok(t, fmt, base, oids, sids, bits, want_md, name):
                    acc.count('attributed-elsewhere:%s' % rd)
                else:
                    acc.violation('reader-raised:%s:%s' % (rd, type(e).__name__),
                                  '%s (text of %s) raised %s: %s; text=%r'
                                  % (rd, w, type(e).__name__, str(e)[:200], s[:200]),
                                  dict(case, writers=[w], readers=[rd]))
                if out:
                    rm(out)
                continue
            if out:
                rm(out)
            ck = O.content_key(r)
            P.state(acc, 'read', rd, ck)
            acc.outcomes.add(ck)
            problems = []
            r_o, r_s = O.ids(r, 'observation'), O.ids(r, 'sample')
            if r_o != oids:
                problems.append(('read-ids:%s:observation' % rd, '%s (text of %s): observation ids %r, expected %r'
                                 % (rd, w, r_o, oids)))
            if r_s != sids:
                problems.append(('read-ids:%s:sample' % rd, '%s (text of %s): sample ids %r, expected %r'
                                 % (rd, w, r_s, sids)))
            acc.count('clause:read-ids')
            if not problems:
                rb = O.dense_bits(r)
                if rb != bits:
                    i, j = first_diff(rb, bits)
                    got = float(r.matrix_data.toarray()[i, j])
                    problems.append(('read-values:%s:%s' % (rd, value_kind(got, dense[i, j])),
                                     '%s (text of %s): cell (%d,%d) is %r, expected %r; text=%r'
                                     % (rd, w, i, j, got, float(dense[i, j]), s[:200])))
                acc.count('clause:read-values')
            if want_md is not None:
                md = r.metadata(axis='observation')
                if md is None or any(name not in m for m in md):
                    problems.append(('read-metadata:%s:missing' % rd,
                                     '%s (text of %s): exported category %r not present after import '
                                     '(observation metadata %r, sample ids %r)'
                                     % (rd, w, name, None if md is None else [dict(m) for m in md], r_s)))
                else:
                    got = [pyify(m[name]) for m in md]
                    if not processed:
                        try:
                            got = [inv(g) for g in got]
                        except Exception:
                            pass
                    if got != want_md:
                        problems.append(('read-metadata:%s:wrong' % rd, '%s (text of %s): category %r is %r, expected %r'
                                         % (rd, w, name, got, want_md)))
                acc.count('clause:read-metadata')
            if problems and rd.startswith('convert_') and \
                    not control_ok(t, 'hdf5' if rd == 'convert_hdf5' else 'json', base, oids, sids, bits,
                                   want_md, name):
                acc.count('attributed-elsewhere:%s' % rd)
                problems = []
            for sig, detail in problems:
                acc.violation(sig, detail, dict(case, writers=[w], readers=[rd]))
            if not problems:
                acc.count('reader:' + rd)
            if not problems and rd == 'lines' and not exported and 0 not in r.shape:
                # the imported table is a table like any other: exported again it must decode to the same ids
                # and values
                acc.evals += 1
                c2 = dict(case, writers=[w], readers=[rd])
                try:
                    s2 = r.to_tsv(**({'observation_column_name': case['obs_col']} if case.get('obs_col') else {}))
                    d_sids2, _, rows2 = decode(s2, len(sids), None, case.get('obs_col'))
                    v2 = np.array([[float(x) for x in rw[1]] for rw in rows2], float).reshape(len(rows2), len(sids))
                    b2 = tuple(tuple(int(v) for v in row) for row in v2.view(np.uint64)) if v2.size else \
                        tuple(() for _ in rows2)
                except Exception as e:
                    acc.violation('second-generation:raised:' + type(e).__name__, 'the imported table cannot be exported '
                                  'again: %s: %s' % (type(e).__name__, str(e)[:200]), c2)
                    continue
                if tuple(rw[0] for rw in rows2) != oids or d_sids2 != sids or b2 != bits:
                    acc.violation('second-generation:text', 'export of the imported table decodes to %r / %r / %r, '
                                  'expected %r / %r' % (tuple(rw[0] for rw in rows2), d_sids2, v2.tolist(), oids, sids), c2)
                else:
                    acc.count('clause:second-generation')
        rm(path, gz)


def control_ok(t, fmt, base, oids, sids, bits, want_md, name):
    """Control run for the `convert` TSV->fmt readers: the table a correct TSV reader would have
    produced (same ids and values, the category under its column name) is written *directly*
    in `fmt` and loaded.  If that is not faithful either, the deviation belongs to the
    HDF5/JSON property (C01/C02), not to C03."""
    from biom import Table, load_table
    p = base + '.control.biom'
    try:
        os.unlink(p)
    except OSError:
        pass
    try:
        c = Table(np.asarray(t.matrix_data.toarray(), float), list(oids), list(sids),
                  None if want_md is None else [{name: v} for v in want_md])
        write_native(c, fmt, p)
        r = load_table(p)
        return faithful(r, oids, sids, bits, want_md, name)
    except Exception:
        return False
    finally:
        try:
            os.unlink(p)
        except OSError:
            pass


# ------------------------------------------------------------------------- real subprocesses
def sub_env():
    env = dict(os.environ)
    env['PYTHONPATH'] = REPO + (':' + env['PYTHONPATH'] if env.get('PYTHONPATH') else '')
    return env


def check_sub(case, acc, tmp):
    """BIOM file -> `biom convert --to-tsv` -> `biom convert --to-<fmt>` -> load_table, each
    a genuine child process of the installed entry point importing the tree under test."""
    from biom import load_table
    if not os.path.exists(BIOM_EXE):
        acc.count('skipped:no-biom-executable')
        return
    t = build(case)
    acc.count('prod:SUB')
    oids, sids = O.ids(t, 'observation'), O.ids(t, 'sample')
    bits = O.dense_bits(t)
    key, fmt_name, exp_md = None, None, None
    if case['export']:
        key, fmt_name = EXPORT_OF[case['obs_md']]
        exp_md = [pyify(m.get(key)) for m in t.metadata(axis='observation')]      # .get: indexing a defaultdict entry would insert the key
    ckey = h64(json.dumps(case, sort_keys=True))
    acc.nontrivial.add(ckey)
    base = os.path.join(tmp, 'c03sub_%016x' % ckey)
    src, tsv, out = base + '.in.biom', base + '.tsv', base + '.out.biom'
    fmt = case['fmt']

    def bad(sig, detail):
        acc.violation(sig, detail, case)

    try:
        write_native(t, fmt, src)
        ok = faithful(load_table(src), oids, sids, bits, exp_md, key)
    except Exception:
        ok = False
    if not ok:
        acc.count('skipped:convert-input-unfaithful:' + fmt)
        return
    cmd1 = [BIOM_EXE, 'convert', '-i', src, '-o', tsv, '--to-tsv']
    if key:
        cmd1 += ['--header-key', key, '--tsv-metadata-formatter', CLI_FMT[fmt_name]]
    cmd2 = [BIOM_EXE, 'convert', '-i', tsv, '-o', out, '--to-' + fmt]
    if key:
        cmd2 += ['--process-obs-metadata', CLI_PROC[fmt_name]]
    for step, cmd in (('to-tsv', cmd1), ('from-tsv', cmd2)):
        acc.trans += 1
        p = subprocess.run(cmd, env=sub_env(), capture_output=True, text=True, timeout=300)
        if p.returncode != 0:
            if step == 'from-tsv' and not control_ok(t, fmt, base, oids, sids, bits, exp_md, key):
                acc.count('attributed-elsewhere:subprocess')
                return
            bad('subprocess-failed:%s' % step, '`biom convert` (%s) exit %d: %s'
                % (step, p.returncode, (p.stderr or p.stdout)[-400:]))
            return
        acc.count('subprocess:' + step)
    acc.evals += 2
    with open(tsv, encoding='utf-8') as fh:
        s = fh.read()
    P.state(acc, 'text', 'subprocess', s)
    try:
        d_sids, d_name, rows = decode(s, len(sids), key)
        d_bits = tuple(tuple(int(np.float64(float(x)).view(np.uint64)) for x in r[1]) for r in rows)
        text_ok = (d_sids == sids and tuple(r[0] for r in rows) == oids and d_bits == bits and
                   (key is None or [INVERSE[fmt_name](r[2]) for r in rows] == exp_md))
    except Exception:
        text_ok = False
    if not text_ok:
        bad('subprocess-text', 'text written by `biom convert --to-tsv` does not describe the table: %r' % s[:400])
        return
    r = load_table(out)
    acc.outcomes.add(O.content_key(r))
    if not faithful(r, oids, sids, bits, exp_md, key):
        if not control_ok(t, fmt, base, oids, sids, bits, exp_md, key):
            acc.count('attributed-elsewhere:subprocess')
            return
        bad('subprocess-read', 'table after `biom convert` TSV->%s differs: ids %r / %r, matrix %r, metadata %r'
            % (fmt, O.ids(r, 'observation'), O.ids(r, 'sample'), r.matrix_data.toarray().tolist(),
               None if r.metadata(axis='observation') is None else
               [dict(m) for m in r.metadata(axis='observation')]))
        return
    acc.count('clause:subprocess-roundtrip')


def subprocess_imports_tree():
    """the child interpreter must import biom from the tree under test"""
    py = open(BIOM_EXE).readline().strip().lstrip('#!').strip() if os.path.exists(BIOM_EXE) else None
    if not py:
        return None
    p = subprocess.run([py, '-c', 'import biom, os; print(os.path.realpath(biom.__file__))'],
                       env=sub_env(), capture_output=True, text=True, timeout=120)
    return p.stdout.strip()


# ----------------------------------------------------------------------------- histories
def history_roundtrip(t, m, report):
    """"every internal sparse layout reachable through the public API": in every state the history explorer
    reaches (ids of the operation alphabet are inside C03's id domain) the TSV text must re-import to the
    same ids and bit-identical values"""
    import numpy as np
    from biom import Table
    from .. import observe as O
    if 0 in t.shape:
        return      # the classic format has no text for a table with an empty axis: to_tsv refuses it by design
    dense = np.asarray(t.matrix_data.toarray(), float)
    if not np.isfinite(dense).all():
        return
    oids, sids, bits = O.ids(t, 'observation'), O.ids(t, 'sample'), O.dense_bits(t)
    try:
        text = t.to_tsv()
        r = Table.from_tsv(text.splitlines(), None, None, lambda x: x)
    except Exception as e:
        report('history:raised:' + type(e).__name__, 'TSV round trip raised %s: %s' % (type(e).__name__, e))
        return
    if O.ids(r, 'observation') != oids or O.ids(r, 'sample') != sids:
        report('history:read-ids', 'ids %r / %r, expected %r / %r' % (O.ids(r, 'observation'), O.ids(r, 'sample'), oids, sids))
    elif O.dense_bits(r) != bits:
        report('history:read-values', 'matrix %r, expected %r' % (r.matrix_data.toarray().tolist(), dense.tolist()))
    else:
        report.count('clause:history-roundtrip')
    # one observation-metadata category through a formatter and back through its inverse
    md = t.metadata(axis='observation')
    if md is None:
        return
    keys = sorted(set.intersection(*[set(map(str, e)) for e in md])) if len(md) else []
    if not keys:
        return
    key = keys[0]
    try:
        want = [pyify(e[key]) for e in md]
        texts = ['J' + json.dumps(w, sort_keys=True) for w in want]
    except Exception:
        return
    if any('\t' in x or '\n' in x for x in texts):
        return
    try:
        text = t.to_tsv(header_key=key, header_value='Category', metadata_formatter=lambda v: 'J' + json.dumps(pyify(v), sort_keys=True))
        r = Table.from_tsv(text.splitlines(), None, None, lambda x: json.loads(x[1:]))
    except Exception as e:
        report('history:md-raised:' + type(e).__name__, 'TSV round trip with the category %r exported raised %s: %s'
               % (key, type(e).__name__, e))
        return
    rmd = r.metadata(axis='observation')
    got = [pyify(e.get('Category')) for e in rmd] if rmd is not None else None
    if O.ids(r, 'observation') != oids or O.ids(r, 'sample') != sids or O.dense_bits(r) != bits:
        report('history:md-read-table', 'with the category %r exported the table reads back as %r / %r / %r'
               % (key, O.ids(r, 'observation'), O.ids(r, 'sample'), r.matrix_data.toarray().tolist()))
    elif got != want:
        report('history:md-read-metadata', 'category %r reads back as %r, expected %r' % (key, got, want))
    else:
        report.count('clause:history-roundtrip-metadata')


def history_spec(depth):
    from .. import explorer as E
    from .. import ops as OPS
    return E.Spec(OPS.start_tables(), OPS.all_ops(), depth, check_ops=(), on_state=history_roundtrip,
                  label='histories-d%d' % depth)


def run(run):
    from .. import explorer as E
    E.explore(run, history_spec(2 if run.quick else 3))
    cs = cases(run.tier, run.seed)
    ok, dropped = admissible_styles()
    if not run.quick:
        where = subprocess_imports_tree()
        root = os.path.realpath(REPO)
        if where is None:
            run.assumptions.append('%s missing: no genuine subprocess runs' % BIOM_EXE)
        elif not where.startswith(root + os.sep):
            run.acc.violation('HARNESS-ERROR', 'child process imports biom from %s, not from %s' % (where, root),
                              {'what': 'subprocess import path'})
        else:
            run.assumptions.append('`%s` child processes import biom from %s' % (BIOM_EXE, root))
    # deterministic interleaving so that every chunk holds a mix of cheap and expensive products
    n = 64
    cs = [x for k in range(n) for x in cs[k::n]]
    P.run_cases(run, cs, check, nchunks=n)
    c = run.acc.counters
    run.extra['products'] = {k[5:]: v for k, v in c.items() if k.startswith('prod:')}
    run.extra['bound'] = {
        'shapes': tier_shapes(run.tier), 'masks': 'all 2^(N*M) of every shape',
        'value_pool': 'domain.HARD (16 values, rotated by seed; a second rotation in CV) + %d extra '
                      'exponent/shortest-repr values, every value with both signs in product V' % len(EXTRA),
        'layouts': D.LAYOUTS, 'id_styles': ok, 'id_styles_dropped_as_outside_domain': dropped,
        'metadata': {'A': ['none', 'taxonomy exported'], 'CV': ['none', 'taxonomy', 'taxonomy_ragged'],
                     'B-md': 'taxonomy, taxonomy_ragged (sc formatter), text, two (naive formatter) x '
                             'exported? x column name {key, "Consensus Lineage"} x sample metadata {none,text}'},
        'fixed_masks_for_B': [[list(s), m] for s, m in fixed_masks(run.tier)],
        'writers': {'A,V': CHEAP_WRITERS, 'CV,B-ids,B-md': WRITERS},
        'readers': {'A,V': CHEAP_READERS, 'CV,B-ids,B-md': READERS},
        'writer_x_reader': 'every reader is run on every *distinct* text of a table (texts of two writers '
                           'that are character-identical are read once; counters text-identical:*)',
        'subprocess_cases': c.get('prod:SUB', 0), 'cases': len(cs)}
    need = ['clause:history-roundtrip', 'clause:history-roundtrip-metadata', 'clause:second-generation', 'clause:text-ids', 'clause:text-values', 'clause:text-metadata', 'clause:read-ids',
            'clause:read-values', 'clause:read-metadata'] + \
        ['reader:' + r for r in READERS] + ['writer:' + w for w in WRITERS] + \
        ['prod:A', 'prod:CV', 'prod:B-ids', 'prod:B-md', 'prod:B-col', 'prod:B-partial', 'prod:B-big', 'prod:V32', 'prod:V'] + ['style:' + s for s in ok] + \
        ['md:taxonomy:exported', 'md:taxonomy_ragged:exported', 'md:text:exported', 'md:none:not-exported'] + \
        ['shape:1x1', 'shape:1x3', 'shape:3x1', 'shape:2x3']
    if not run.quick and os.path.exists(BIOM_EXE):
        need += ['clause:subprocess-roundtrip', 'subprocess:to-tsv', 'subprocess:from-tsv']
    vacuity(run, need)
    run.assumptions += [
        'CPython float() / repr and the gzip module are trusted (independent decoder of the text)',
        'the BIOM input of `convert --to-tsv` and the HDF5/JSON stage behind `convert` TSV->BIOM are '
        'guarded by a control run: deviations of those formats belong to C01/C02 and are counted '
        '(skipped:convert-input-unfaithful, attributed-elsewhere), not reported here',
        'exporting a category the table does not have (header key without observation metadata) is '
        'outside the property domain and not enumerated',
        'locale is fixed by the wrapper (LC_ALL=C, CPython UTF-8 mode): `convert --to-tsv` opens its '
        'output with the locale encoding']


def replay(case):
    if 'history' in case:
        from .. import explorer as E
        return E.replay_history(history_spec(len(case['history'])), case)
    return P.replay_case(check, case)
