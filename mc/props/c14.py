"""C14 – subsetting while reading equals reading everything and then filtering.

Engine E2.  Every table of the product is written by the library as HDF5 and as JSON.
For every non-empty subset of each axis, requested in every order, the five subsetting
read paths are run on the real code:

    A  Table.from_hdf5(h5, ids=..., axis=...)
    B  Table.from_hdf5(h5, ids=..., axis=..., subset_with_metadata=False)   ids as str and as bytes
    C  biom.parse_table(<json handle> | <list of lines>, ids=..., axis=...)
    D  the `subset-table` click callback on JSON text, once per re-serialisation of the
       same JSON value (9 spellings: writer, default, compact, indent 0/1/2/4, sorted keys,
       blank before every colon)
    E  the `subset-table` click callback on the HDF5 file

The oracle loads the *whole* file once with the library (Table.from_hdf5 / parse_table
without ids – that is the left-hand side the property names), turns it into a dense
model (id lists, list of rows, frozen metadata, type) and filters that model in ~10 lines
of plain Python: file order kept, request order irrelevant, then – for A, C, E, which
document it – other-axis vectors that are all-zero inside the subset are dropped; B has
no metadata and no type; D drops nothing and its output must be json.loads-able and load
to the expected table for every spelling.  A request naming an id that is not in the file
must be refused by A, B, D, E (and leave no loadable output file).

If the whole-file load itself fails (that is C01's / C02's business) the variants that
depend on it are skipped and counted, never flagged.
"""
import io
import itertools
import json
import os
import pickle
import subprocess
import sys

import numpy as np

from .. import domain as D
from .. import observe as O
from .. import pipeline as P
from ..core import h64, vacuity

LEVEL = 'model_checking'
RULE = ('full cartesian product: (M) every sparsity mask of every shape of the tier, metadata on both '
        'axes, vocabulary type; (S) every id style on fixed masks; (K) every metadata kind on fixed masks; (H) generated_by / table id strings with comma, braces, '
        'quotes, backslash, non-ASCII on fixed masks; '
        'x both axes x every non-empty subset of the axis x every order of the request (all permutations, '
        'axes have <= 3 ids) x variants A, B(str ids, bytes ids), C(handle, lines), D(9 JSON spellings), E; '
        'plus, for every subset, the request with an unknown id appended / prepended and the unknown id '
        'alone (A, B, D x 9, E).  A case is non-trivial when the table has a non-zero cell and the '
        'request is a proper subset, is not in file order, or contains an unknown id; distinct by case spec')

UNKNOWN = 'zz-not-an-id-of-this-table'
OTHER = {'observation': 'sample', 'sample': 'observation'}

# name, class used in signatures, json.dumps keyword arguments (None = the writer's own text)
SERS = [
    ('writer', 'writer', None),
    ('default', 'spaced', {}),
    ('compact', 'compact', {'separators': (',', ':')}),
    ('indent0', 'indented', {'indent': 0}),
    ('indent1', 'indented', {'indent': 1}),
    ('indent2', 'indented', {'indent': 2}),
    ('indent4', 'indented', {'indent': 4}),
    ('sortkeys', 'sorted-keys', {'sort_keys': True}),
    ('colon', 'space-before-colon', {'separators': (', ', ' : ')}),
]

FIXED = {(2, 3): [0b011101, 0b000101], (3, 2): [0b100110, 0b001101], (3, 3): [0b100010101, 0b000110011]}
GEN = 'verif-harness c14'
# generated_by strings of product H (plain / comma and braces / quotes, backslash, non-ASCII)
GENS = [GEN, 'tool 1.9, patched {x}', 'gen "q" \\ \u65e5\u672c', 'C:\\tools\\biom\\']   # the last one ends in a backslash
COLON = 'space-before-colon'


# ------------------------------------------------------------------------- cases
def tier_shapes(tier):
    return [(2, 3), (3, 2)] + ([(3, 3)] if tier == 'thorough' else [])


def requests(n):
    """all (positions in request order, unknown placement) for an axis of n ids"""
    out = []
    for k in range(1, n + 1):
        for sub in itertools.combinations(range(n), k):
            for perm in itertools.permutations(sub):
                out.append((list(perm), None))
    for k in range(1, n + 1):
        for sub in itertools.combinations(range(n), k):
            out.append((list(sub), 'back'))
            out.append((list(sub), 'front'))
    out.append(([], 'only'))
    # an unknown id that merely *extends* a stored id (longer than every stored id): a reader that coerces the
    # request to the file's fixed-width id type would truncate it onto the stored one
    out.append(([], 'prefix-only'))
    for k in range(1, n):
        for sub in itertools.combinations(range(1, n), k):
            out.append((list(sub), 'prefix-back'))
    return out


def wide_requests(n):
    """axes longer than ten ids (positions with one and two digits): all pairs, a few triples, in both orders"""
    out = []
    for a, b in itertools.combinations(range(n), 2):
        out.append(([a, b], None))
    for tri in ([3, 7, 10], [2, 11, 5], [0, 9, 10], [1, 10, 11]):
        out.append((tri, None))
        out.append((tri[::-1], None))
    out.append(([10], 'back'))
    out.append(([], 'prefix-only'))
    return out


def table_specs(tier, seed):
    rot = seed % len(D.HARD)
    vocab = D.TYPES[1:]
    specs = []
    for shape in tier_shapes(tier):
        for mask in D.masks(shape):
            specs.append({'prod': 'M', 'shape': list(shape), 'mask': mask, 'rot': rot, 'pool': 'hard',
                          'obs_md': 'taxonomy', 'samp_md': 'two', 'header': 1,
                          'type': vocab[(mask + seed) % len(vocab)]})
    for shape in tier_shapes(tier):
        for mask in FIXED[shape]:
            for st in D.ID_STYLES:
                specs.append({'prod': 'S', 'shape': list(shape), 'mask': mask, 'rot': rot, 'pool': 'hard',
                              'obs_style': st, 'samp_style': st, 'obs_md': 'text', 'samp_md': 'taxonomy',
                              'header': 1, 'type': 'OTU table'})
    for shape in tier_shapes(tier):
        for g in range(len(GENS)):
            for hd in (1, 2):
                specs.append({'prod': 'H', 'shape': list(shape), 'mask': FIXED[shape][0], 'rot': rot,
                              'pool': 'hard', 'obs_md': 'text', 'samp_md': 'text', 'header': hd, 'gen': g,
                              'type': vocab[(g + hd + seed) % len(vocab)]})
    # W: one axis with more than ten ids (one- and two-digit positions)
    for shape in ((12, 2), (2, 12)):
        for md in ('text', 'none'):
            specs.append({'prod': 'W', 'shape': list(shape), 'mask': 0b101101110111011101101011, 'rot': rot,
                          'pool': 'hard', 'obs_md': md, 'samp_md': md, 'header': 1, 'type': 'OTU table'})
    # T: every table type incl. an absent one ("type": null in the JSON text), no table id, no metadata
    for shape in tier_shapes(tier):
        for ty in D.TYPES:
            for md in ('none', 'text'):
                specs.append({'prod': 'T', 'shape': list(shape), 'mask': FIXED[shape][0], 'rot': rot,
                              'pool': 'hard', 'obs_md': md, 'samp_md': md, 'header': 0, 'type': ty})
    kinds = D.MD_KINDS
    for shape in tier_shapes(tier):
        mask = FIXED[shape][0]
        for k, mk in enumerate(kinds):
            specs.append({'prod': 'K', 'shape': list(shape), 'mask': mask, 'rot': rot, 'pool': 'hard',
                          'obs_md': mk, 'samp_md': kinds[(k + 1 + seed) % len(kinds)], 'header': 1,
                          'type': 'Taxon table'})
    return specs


def cases(tier, seed):
    out = []
    for spec in table_specs(tier, seed):
        for axis in ('observation', 'sample'):
            n = spec['shape'][0] if axis == 'observation' else spec['shape'][1]
            if spec['prod'] == 'W' and n <= 3:
                continue
            for req, unk in (wide_requests(n) if spec['prod'] == 'W' else requests(n)):
                c = dict(spec)
                c.update({'axis': axis, 'req': req, 'unknown': unk})
                out.append(c)
    return out


# ------------------------------------------------------------------------- the model side
def snapshot(t):
    """dense model of a loaded table: (obs ids, samp ids, rows, obs md, samp md, type)"""
    return O.content(t)


def _sub_md(md, keep):
    if md is None:
        return None
    out = tuple(md[i] for i in keep)
    return None if all(e == ('D',) for e in out) else out


def expect(base, axis, want, drop, with_md=True):
    """load-everything-then-filter on the dense model"""
    oids, sids, m, omd, smd, ty = base
    want = set(want)
    if axis == 'observation':
        kr = [i for i, x in enumerate(oids) if x in want]
        kc = list(range(len(sids)))
    else:
        kr = list(range(len(oids)))
        kc = [j for j, x in enumerate(sids) if x in want]
    if drop:
        if axis == 'observation':
            kc = [j for j in kc if any(m[i][j] != 0 for i in kr)]
        else:
            kr = [i for i in kr if any(m[i][j] != 0 for j in kc)]
    rows = tuple(tuple(m[i][j] for j in kc) for i in kr)
    res = (tuple(oids[i] for i in kr), tuple(sids[j] for j in kc), rows,
           _sub_md(omd, kr) if with_md else None, _sub_md(smd, kc) if with_md else None,
           ty if with_md else None)
    return res


def spelling(name, text, doc):
    kw = dict([(n, k) for n, _, k in SERS])[name]
    if kw is None:
        return text
    return json.dumps(doc, **kw)


# ------------------------------------------------------------------------- artefacts (per worker cache)
_CACHE = {}


def spec_of(case):
    return {k: v for k, v in case.items() if k not in ('axis', 'req', 'unknown', 'hashseed')}


def artefacts(case, acc, tmp):
    """build the table, write it as HDF5 and JSON, load both completely (cached for the
    consecutive cases of one table inside a worker)"""
    import h5py
    from biom import Table, parse_table
    spec = spec_of(case)
    key = (tmp, json.dumps(spec, sort_keys=True))
    if _CACHE.get('key') == key:
        return _CACHE['val']
    old = _CACHE.get('val')
    if old:
        for p in (old.get('h5'),):
            if p and os.path.exists(p):
                os.unlink(p)
    _CACHE.clear()
    val = {'notes': []}
    t = D.build(spec)
    gen = GENS[spec.get('gen', 0)]
    val['src'] = snapshot(t)
    val['nnz'] = int(np.count_nonzero(t.matrix_data.toarray()))
    tag = '%016x' % h64(key[1])
    # ---- HDF5
    h5 = os.path.join(tmp, 'c14_%s.h5' % tag)
    acc.trans += 1
    try:
        with h5py.File(h5, 'w') as f:
            t.to_hdf5(f, gen)
        val['h5'] = h5
    except Exception as e:
        val['h5'] = None
        val['notes'].append('skipped:hdf5-writer-raised:%s' % type(e).__name__)
    val['h5_base'] = None
    if val['h5']:
        acc.trans += 1
        try:
            with h5py.File(h5, 'r') as f:
                val['h5_base'] = snapshot(Table.from_hdf5(f))
            P.state(acc, 'file', 'hdf5', val['h5_base'])
        except Exception as e:
            val['notes'].append('skipped:hdf5-full-load-raised:%s' % type(e).__name__)
    # ---- JSON
    acc.trans += 1
    val['text'] = val['doc'] = val['json_base'] = None
    try:
        val['text'] = t.to_json(gen)
        val['doc'] = json.loads(val['text'])
    except Exception as e:
        val['text'] = None
        val['notes'].append('skipped:json-writer-unusable:%s' % type(e).__name__)
    if val['text'] is not None:
        acc.trans += 1
        try:
            val['json_base'] = snapshot(parse_table(io.StringIO(val['text'])))
            P.state(acc, 'file', 'json', val['json_base'])
        except Exception as e:
            val['notes'].append('skipped:json-full-load-raised:%s' % type(e).__name__)
        val['spellings'] = {n: spelling(n, val['text'], val['doc']) for n, _, _ in SERS}
    for fmt in ('h5_base', 'json_base'):
        if val[fmt] is not None and val[fmt] != val['src']:
            val['notes'].append('note:%s-differs-from-source-table(C01/C02)' % fmt)
    _CACHE['key'] = key
    _CACHE['val'] = val
    return val


# ------------------------------------------------------------------------- comparison
def compare(bad, tag, got, exp, nodrop, axis, tail=''):
    """got/exp: snapshots.  Emits one signature per failed clause; returns True when equal."""
    oax = OTHER[axis]
    ix = {'observation': 0, 'sample': 1}
    ok = True

    def sig(s):
        return '%s:%s%s' % (tag, s, tail)

    g_ax, e_ax = got[ix[axis]], exp[ix[axis]]
    g_o, e_o = got[ix[oax]], exp[ix[oax]]
    if g_ax != e_ax:
        ok = False
        if sorted(g_ax) == sorted(e_ax):
            bad(sig('ids:order'), 'subset axis %s: ids %r, expected file order %r' % (axis, g_ax, e_ax))
        else:
            bad(sig('ids:set'), 'subset axis %s: ids %r, expected %r' % (axis, g_ax, e_ax))
    if g_o != e_o:
        ok = False
        if nodrop is not None and g_o == nodrop[ix[oax]] and len(g_o) > len(e_o):
            bad(sig('other-axis:empty-vectors-kept'), '%s ids %r, expected %r (vectors that are all-zero in '
                'the subset must be dropped by this variant)' % (oax, g_o, e_o))
        elif set(g_o) < set(e_o):
            bad(sig('other-axis:vectors-dropped'), '%s ids %r, expected %r' % (oax, g_o, e_o))
        else:
            bad(sig('other-axis:ids'), '%s ids %r, expected %r' % (oax, g_o, e_o))
    if ok and got[2] != exp[2]:
        ok = False
        bad(sig('values'), 'matrix %r, expected %r (ids %r / %r)' % (got[2], exp[2], exp[0], exp[1]))
    if ok:
        if got[3] != exp[3] or got[4] != exp[4]:
            ok = False
            if exp[3] is None and exp[4] is None:
                bad(sig('carries-metadata'), 'metadata %r / %r, expected none' % (got[3], got[4]))
            else:
                bad(sig('metadata'), 'metadata %r / %r, expected %r / %r' % (got[3], got[4], exp[3], exp[4]))
        if got[5] != exp[5]:
            ok = False
            bad(sig('type'), 'type %r, expected %r' % (got[5], exp[5]))
    return ok


def _exc(e):
    return '%s: %s' % (type(e).__name__, str(e)[:160])


# ------------------------------------------------------------------------- check
def check(case, acc, tmp):
    import h5py
    from biom import Table, load_table, parse_table
    from biom.cli.table_subsetter import subset_table
    art = artefacts(case, acc, tmp)
    for n in art['notes']:
        acc.count(n)
    axis = case['axis']
    src = art['src']
    ax_ids = src[0] if axis == 'observation' else src[1]
    unk = case['unknown']
    want = [ax_ids[p] for p in case['req']]
    if unk == 'back':
        want = want + [UNKNOWN]
    elif unk in ('front', 'only'):
        want = [UNKNOWN] + want
    elif unk in ('prefix-only', 'prefix-back'):
        width = max(len(i) for i in ax_ids)
        want = want + [ax_ids[0] + '0' * (width - len(ax_ids[0]) + 1)]
    tag = '%016x' % h64(json.dumps(case, sort_keys=True))
    acc.count('prod:' + case['prod'])
    acc.count('axis:' + axis)
    acc.count('subset-size:%d-of-%d' % (len(case['req']), len(ax_ids)))
    if unk:
        acc.count('unknown:' + unk)
    else:
        pos = case['req']
        if pos == sorted(pos):
            acc.count('order:file')
        if len(pos) > 1 and pos == sorted(pos, reverse=True):
            acc.count('order:reversed')
        if pos != sorted(pos) and pos != sorted(pos, reverse=True):
            acc.count('order:other')
    if art['nnz'] and (unk or len(case['req']) < len(ax_ids) or case['req'] != sorted(case['req'])):
        acc.nontrivial.add(h64(json.dumps(case, sort_keys=True)))

    def bad(sig, detail):
        acc.violation(sig, 'request %r on %s: %s' % (want, axis, detail), case)

    idsf = os.path.join(tmp, 'ids_%s.txt' % tag)
    with open(idsf, 'w', encoding='utf-8') as fh:
        fh.write(''.join(i + '\n' for i in want))
    outs = []

    def fresh(ext):
        p = os.path.join(tmp, 'out_%s_%d.%s' % (tag, len(outs), ext))
        outs.append(p)
        return p

    def family(members, all_label):
        """members: [(label, call)], call(bad_) runs one member of a family of equivalent
        requests (id forms, input forms, JSON spellings) and reports through bad_.  Every
        distinct failure signature is emitted once, suffixed with the set of member labels
        that showed it (`all_label` when every label did), so that one defect is one
        signature and a spelling-dependent result is visible as such."""
        coll = {}
        labels = []
        for label, call in members:
            if label not in labels:
                labels.append(label)
            call(lambda sig, detail, _l=label: coll.setdefault(sig, []).append((_l, detail)))
        for sig, lst in coll.items():
            failed = sorted(set(l for l, _ in lst))
            if len(labels) == 1:
                name = labels[0]
            elif failed == sorted(labels):
                name = all_label
            else:
                name = '+'.join(failed)
            bad('%s:%s' % (sig, name), '[failing: %s] %s' % (', '.join(failed), lst[0][1]))
        return not coll

    def refused(bad_, vtag, fn, out=None):
        """unknown-id clause: fn must raise; no loadable output may be left behind"""
        acc.trans += 1
        acc.evals += 1
        acc.count('clause:unknown-id-refused:' + vtag)
        try:
            fn()
        except (Exception, SystemExit):
            acc.count('refused:' + vtag)
            acc.outcomes.add(h64(('refused', vtag)))
        else:
            bad_('%s:unknown-id:accepted' % vtag, 'a request naming an id that is not in the file was '
                 'served instead of refused')
        if out is not None and os.path.exists(out):
            try:
                r = load_table(out)
            except (Exception, SystemExit):
                pass
            else:
                bad_('%s:unknown-id:wrote-loadable-output' % vtag, 'output file exists and loads as a '
                     '%r table' % (r.shape,))

    def run_variant(bad_, vtag, fn, exp, nodrop, tail=''):
        """known ids: fn returns a Table that must equal exp.  `tail` (the axis, for D whose two
        axes are sliced by different code) is appended to comparison and output signatures, not
        to 'raised' ones (a refusal happens before axis-specific code)."""
        acc.trans += 1
        acc.evals += 1
        acc.count('clause:equals-load-then-filter:' + vtag)
        try:
            r = fn()
        except _NotJson as e:
            bad_('%s:output-not-json%s' % (vtag, tail), 'json.loads rejects the output: %s; output=%r'
                 % (e, e.text[:400]))
            return None
        except _Unloadable as e:
            bad_('%s:output-unloadable:%s%s' % (vtag, type(e.inner).__name__, tail),
                 'the written output cannot be loaded: %s; output=%r' % (e, (e.text or '')[:400]))
            return None
        except (Exception, SystemExit) as e:
            bad_('%s:raised:%s' % (vtag, type(e).__name__), _exc(e))
            return None
        got = snapshot(r)
        P.state(acc, 'result', vtag, got)
        acc.outcomes.add(h64(got))
        if compare(bad_, vtag, got, exp, nodrop, axis, tail):
            acc.count('compared:' + vtag)
        return got

    # ================================================================ HDF5 side: A, B, E
    h5 = art['h5']
    if h5 and (art['h5_base'] is not None or unk):
        def A():
            with h5py.File(h5, 'r') as f:
                return Table.from_hdf5(f, ids=list(want), axis=axis)

        def B(ids):
            def f_():
                with h5py.File(h5, 'r') as f:
                    return Table.from_hdf5(f, ids=ids, axis=axis, subset_with_metadata=False)
            return f_

        def Ecmd(out):
            def f_():
                subset_table.callback(input_hdf5_fp=h5, input_json_fp=None, axis=axis, ids=idsf,
                                      output_fp=out)
            return f_
        bforms = [('str-ids', list(want)), ('bytes-ids', [w.encode('utf-8') for w in want])]
        if unk:
            refused(bad, 'A', A)
            family([(lab, lambda b_, ids=ids: refused(b_, 'B', B(ids))) for lab, ids in bforms],
                   'both-id-forms')
            out = fresh('biom')
            refused(bad, 'E', Ecmd(out), out)
        else:
            base = art['h5_base']
            e_drop = expect(base, axis, want, True)
            e_keep = expect(base, axis, want, False)
            if e_drop != e_keep:
                acc.count('clause:drop-exercised')
            run_variant(bad, 'A', A, e_drop, e_keep)
            e_b = expect(base, axis, want, False, with_md=False)
            for lab, _ in bforms:
                acc.count('idform:' + lab)
            family([(lab, lambda b_, ids=ids: run_variant(b_, 'B', B(ids), e_b, None))
                    for lab, ids in bforms], 'both-id-forms')
            out = fresh('biom')

            def E_split():
                # separate "the command failed" from "its output cannot be loaded"
                Ecmd(out)()
                acc.trans += 1
                try:
                    return load_table(out)
                except (Exception, SystemExit) as e:
                    raise _Unloadable(e)
            run_variant(bad, 'E', E_split, e_drop, e_keep)
            if len(case['req']) == 1 and len(ax_ids) >= 2:
                # the file at the same path is replaced by one whose axis has the same length but another order,
                # and the same request is made again: nothing remembered about the old file may be used
                try:
                    t2 = D.build(spec_of(case))
                    t2 = t2.sort_order([str(i) for i in t2.ids(axis)][::-1], axis=axis)
                    base2 = snapshot(t2)
                    acc.trans += 1
                    with h5py.File(h5, 'r') as f:
                        Table.from_hdf5(f, ids=list(want), axis=axis, subset_with_metadata=False)
                    with h5py.File(h5, 'w') as f:
                        t2.to_hdf5(f, GENS[spec_of(case).get('gen', 0)])
                    e_b2 = expect(base2, axis, want, False, with_md=False)
                    run_variant(bad, 'B', B(list(want)), e_b2, None, ':same-path-rewritten')
                    acc.count('clause:same-path-rewritten')
                finally:
                    # the cached artefact is restored for the cases that follow
                    with h5py.File(h5, 'w') as f:
                        D.build(spec_of(case)).to_hdf5(f, GENS[spec_of(case).get('gen', 0)])
    else:
        acc.count('skipped:hdf5-variants')

    # ================================================================ JSON side: C, D
    if art['text'] is not None and (art['json_base'] is not None or unk):
        text = art['text']
        base = art['json_base']
        if not unk:
            e_drop = expect(base, axis, want, True)
            e_keep = expect(base, axis, want, False)
            family([('handle', lambda b_: run_variant(
                        b_, 'C', lambda: parse_table(io.StringIO(text), ids=list(want), axis=axis),
                        e_drop, e_keep)),
                    ('lines', lambda b_: run_variant(
                        b_, 'C', lambda: parse_table(text.splitlines(True), ids=list(want), axis=axis),
                        e_drop, e_keep)),
                    # the requested ids in other containers the documentation allows ("iterable")
                    ('lines-ndarray', lambda b_: run_variant(
                        b_, 'C', lambda: parse_table(text.splitlines(True), ids=np.array(list(want)), axis=axis),
                        e_drop, e_keep)),
                    ('handle-tuple', lambda b_: run_variant(
                        b_, 'C', lambda: parse_table(io.StringIO(text), ids=tuple(want), axis=axis),
                        e_drop, e_keep))], 'both-input-forms')

        def D_member(name):
            def call(bad_):
                acc.count('ser:' + name)
                inp = os.path.join(tmp, 'in_%s_%s.json' % (tag, name))
                with open(inp, 'w', encoding='utf-8') as fh:
                    fh.write(art['spellings'][name])
                outs.append(inp)
                out = fresh('json')

                def Dcmd():
                    subset_table.callback(input_hdf5_fp=None, input_json_fp=inp, axis=axis, ids=idsf,
                                          output_fp=out)
                if unk:
                    refused(bad_, 'D', Dcmd, out)
                    return

                def D_split():
                    Dcmd()
                    with open(out, encoding='utf-8') as fh:
                        res = fh.read()
                    acc.count('clause:D-output-is-json')
                    try:
                        json.loads(res)
                    except ValueError as e:
                        raise _NotJson(e, res)
                    acc.trans += 1
                    try:
                        return parse_table(res.splitlines(True))
                    except (Exception, SystemExit) as e:
                        raise _Unloadable(e, res)
                run_variant(bad_, 'D', D_split, e_keep, None, ':' + axis)
            return call
        # the eight spellings that differ in whitespace / key order only ...
        same = family([(cls, D_member(name)) for name, cls, _ in SERS if cls != COLON], 'all-spellings')
        # ... and the blank before every colon (DESIGN section 7, finding 22) on its own
        family([(cls, D_member(name)) for name, cls, _ in SERS if cls == COLON], COLON)
        if not unk:
            acc.count('clause:D-identical-across-serialisations')
            if same:
                acc.count('compared:D-all-8-identical')
    else:
        acc.count('skipped:json-variants')
    for p in outs + [idsf]:
        if os.path.exists(p):
            os.unlink(p)


class _Unloadable(Exception):
    def __init__(self, e, text=None):
        Exception.__init__(self, _exc(e))
        self.inner = e
        self.text = text


class _NotJson(Exception):
    def __init__(self, e, text):
        Exception.__init__(self, _exc(e))
        self.inner = e
        self.text = text


# ------------------------------------------------------------------------- worker-death watchdog
FATAL_SIGNALS = {4: 'SIGILL', 6: 'SIGABRT', 7: 'SIGBUS', 8: 'SIGFPE', 9: 'SIGKILL', 11: 'SIGSEGV'}


def guarded_run_cases(run, cases, check, nchunks=None):
    """P.run_cases plus a watchdog.  A library defect that corrupts a sparse matrix can take a
    worker down with SIGSEGV inside scipy (seen with an off-by-one in the indptr extraction of
    from_hdf5); multiprocessing.Pool then loses the task and Run.pmap would wait for ever.
    Every worker notes the case it is about to run in a per-pid file; a thread of the parent
    watches the pool's processes, and when one is killed by a fatal signal the enumeration is
    aborted (KeyboardInterrupt into the main thread, which makes Pool terminate), the run is
    marked not exhaustive and the noted case is reported as `worker-killed:<signal>`."""
    import _thread
    import multiprocessing as mp
    import shutil
    import tempfile
    import threading
    watch = tempfile.mkdtemp(prefix='verif-watch-')
    dead = []
    stop = threading.Event()

    def noted(case, acc, tmp):
        with open(os.path.join(watch, str(os.getpid())), 'w') as fh:
            json.dump(case, fh)
        check(case, acc, tmp)

    def dog():
        seen = {}
        while not stop.wait(0.25):
            for p in mp.active_children():
                seen[p.pid] = p
            for pid, p in seen.items():
                code = p.exitcode
                if code is not None and -code in FATAL_SIGNALS:
                    dead.append((pid, -code))
                    _thread.interrupt_main()
                    return
    th = threading.Thread(target=dog, daemon=True)
    th.start()
    try:
        try:
            P.run_cases(run, cases, noted, nchunks=nchunks)
        finally:
            stop.set()
    except KeyboardInterrupt:
        if not dead:
            raise
        pid, signo = dead[0]
        try:
            with open(os.path.join(watch, str(pid))) as fh:
                case = json.load(fh)
        except Exception:
            case = {'note': 'case of the dead worker unknown'}
        run.acc.violation('worker-killed:%s' % FATAL_SIGNALS[signo], 'a worker process was killed by %s '
                          'while running this case (library or one of its compiled dependencies crashed); '
                          'the enumeration was aborted' % FATAL_SIGNALS[signo], case)
        run.cap('worker killed by %s: enumeration aborted' % FATAL_SIGNALS[signo])
    finally:
        th.join(2)
        shutil.rmtree(watch, ignore_errors=True)
    return not dead


# ------------------------------------------------------------------------- run / replay
CLAUSES = ['clause:equals-load-then-filter:' + v for v in 'ABCDE'] + \
          ['clause:unknown-id-refused:' + v for v in 'ABDE'] + \
          ['clause:D-output-is-json', 'clause:D-identical-across-serialisations', 'clause:drop-exercised',
           'order:file', 'order:reversed', 'order:other', 'idform:str-ids', 'idform:bytes-ids',
           'unknown:back', 'unknown:front', 'unknown:only', 'unknown:prefix-only', 'unknown:prefix-back',
           'prod:W', 'prod:T', 'prod:M', 'prod:S', 'prod:K', 'prod:H',
           'axis:observation', 'axis:sample'] + ['ser:' + n for n, _, _ in SERS]


HASH_SEEDS_THOROUGH = [1, 2]          # in addition to the wrapper's own PYTHONHASHSEED (0)


def other_hash_seeds(run):
    """thorough tier: the whole enumeration again in child interpreters started with another
    PYTHONHASHSEED (the subset paths build Python sets of ids); the child pickles its
    accumulator, the parent merges it.  Cases carry the hash seed so that a replay names it."""
    import tempfile
    done = []
    for hs in HASH_SEEDS_THOROUGH:
        fd, out = tempfile.mkstemp(prefix='verif-c14-hs%d-' % hs, suffix='.pickle')
        os.close(fd)
        env = dict(os.environ)
        env['PYTHONHASHSEED'] = str(hs)
        try:
            r = subprocess.run([sys.executable, '-W', 'ignore', '-m', 'mc.props.c14', 'child', run.tier,
                                str(run.seed), str(hs), out], env=env, capture_output=True, text=True)
            if r.returncode != 0 or not os.path.getsize(out):
                run.acc.violation('HARNESS-ERROR', 'hash-seed child %d failed (rc=%d): %s'
                                  % (hs, r.returncode, (r.stdout + r.stderr)[-1500:]), {'hashseed': hs})
                continue
            with open(out, 'rb') as fh:
                acc, complete, caps = pickle.load(fh)
            run.acc.merge(acc)
            for c in caps:
                run.cap('hash seed %d: %s' % (hs, c))
            if complete:
                done.append(hs)
        finally:
            os.unlink(out)
    return done


def _child(argv):
    from ..core import Run
    tier, seed, hs, out = argv[0], int(argv[1]), int(argv[2]), argv[3]
    assert os.environ.get('PYTHONHASHSEED') == str(hs)
    run = Run('C14', tier, seed, LEVEL, RULE)
    cs = cases(tier, seed)
    for c in cs:
        c['hashseed'] = hs
    complete = guarded_run_cases(run, cs, check, nchunks=256)
    with open(out, 'wb') as fh:
        pickle.dump((run.acc, complete, run.caps), fh)


def run(run):
    cs = cases(run.tier, run.seed)
    complete = guarded_run_cases(run, cs, check, nchunks=256)
    hash_seeds = [int(os.environ.get('PYTHONHASHSEED', '0') or 0)]
    if run.tier == 'thorough' and complete:
        hash_seeds += other_hash_seeds(run)
    need = list(CLAUSES) if complete else []
    for v in ('ABCDE' if complete else ''):
        # "a table was actually compared and found equal" is demanded unless that variant is
        # already failing (then the run exits 1 anyway)
        if not any(s.startswith(v + ':') for s in run.acc.viol):
            need.append('compared:' + v)
    if complete and not any(s.startswith('D:') for s in run.acc.viol):
        need.append('compared:D-all-8-identical')
    vacuity(run, need)
    specs = table_specs(run.tier, run.seed)
    run.extra['bound'] = {
        'shapes_all_masks': tier_shapes(run.tier),
        'tables': {p: sum(1 for s in specs if s['prod'] == p) for p in 'MSKH'},
        'id_styles_on_fixed_masks': D.ID_STYLES,
        'metadata_kinds_on_fixed_masks': D.MD_KINDS,
        'header_strings_on_fixed_masks': {'generated_by': GENS, 'table_id (domain header index)': [1, 2]},
        'fixed_masks': {'%dx%d' % k: v for k, v in FIXED.items() if k in tier_shapes(run.tier)},
        'axes': ['observation', 'sample'],
        'subsets': 'all non-empty subsets of the axis',
        'orders': 'all permutations of each subset (file order and reversed included; axes <= 3 ids)',
        'variants': ['A from_hdf5(ids)', 'B from_hdf5(ids, subset_with_metadata=False) x {str, bytes}',
                     'C parse_table(ids) x {handle, lines}', 'D subset-table callback on JSON x 9 spellings',
                     'E subset-table callback on HDF5'],
        'json_spellings': [n for n, _, _ in SERS],
        'unknown_id_requests': 'per subset: unknown id appended, prepended; plus the unknown id alone '
                               '(A, B x 2, D x 9, E)',
        'hash_seeds': hash_seeds,
        'cases_per_hash_seed': len(cs),
    }
    run.assumptions += ['the whole-file load (Table.from_hdf5 / parse_table without ids) is the reference '
                        'the property names; the filter and the empty-vector drop are done on a dense '
                        'model in plain Python',
                        'stdlib json is the independent judge of D\'s output being JSON',
                        'if the whole-file load of a format fails, the variants of that format are '
                        'skipped and counted (C01/C02 own that failure)']


def replay(case):
    hs = case.get('hashseed')
    if hs is not None and os.environ.get('PYTHONHASHSEED') != str(hs):
        # recorded under another hash seed: re-execute in an interpreter started with it
        env = dict(os.environ)
        env['PYTHONHASHSEED'] = str(hs)
        r = subprocess.run([sys.executable, '-W', 'ignore', '-m', 'mc.props.c14', 'replay-child',
                            json.dumps(case)], env=env, capture_output=True, text=True)
        if r.returncode != 0:
            return [('HARNESS-ERROR', 'replay child failed: ' + (r.stdout + r.stderr)[-800:])]
        return [tuple(x) for x in json.loads(r.stdout.strip().splitlines()[-1])]
    return P.replay_case(check, case)


if __name__ == '__main__':
    if len(sys.argv) >= 6 and sys.argv[1] == 'child':
        _child(sys.argv[2:])
    elif len(sys.argv) == 3 and sys.argv[1] == 'replay-child':
        print(json.dumps(P.replay_case(check, json.loads(sys.argv[2]))))
