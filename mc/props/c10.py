"""C10 – concatenation places every operand's block unchanged and pads with zeros.

Engine E2.  k in {1,2,3} operands; concatenated-axis ids disjoint pools in every order;
other-axis ids = every ordered selection of a 3-id universe per operand (identical /
permuted / partially missing / disjoint); both axes; metadata on none / all / mixed
operands; entry points Table.concat(list), Table.concat(single table), biom.concat(list);
every way of making two operands share a concatenated-axis id must be refused.
"""
import itertools

import numpy as np

from .. import model as MD
from .. import observe as O
from .. import pipeline as P
from ..compare import diff
from ..core import h64, hash_seed_reruns, vacuity
from ..model import M, ModelRefuse

LEVEL = 'model_checking'
RULE = ('k<=3 operands x every ordered other-axis selection (1..3 of 3 ids) per operand x both axes x 3 '
        'metadata configs x entry points x operand order permutations of the concatenated-axis pools (an operand '
        'may have no other-axis id at all); plus every pair of 2 or 3 operands sharing a concatenated-axis id, '
        'under the default and under an all-ignore error profile; non-trivial = every operand has a non-zero '
        'cell; distinct by (axis, selections, metadata config, entry point)')

U = ['i2', 'i10', 'i9']      # natural order (i2, i9, i10) differs from string order (i10, i2, i9)
POOLS = [['a1', 'a2'], ['b1_a_much_longer_identifier'], ['c2', 'c1x', 'ü3']]   # later operands have wider ids


def selections(kmax=3):
    out = []
    for k in range(1, kmax + 1):
        for p in itertools.permutations(U, k):
            out.append(list(p))
    return out


def mk(axis_ids, inv_ids, which, md_ax, md_inv, axis, layout='csr'):
    from biom import Table
    base = [1.0, 0.25, 100.0][which]
    tag = 'ABC'[which]
    if axis == 'sample':
        o, s = inv_ids, axis_ids
    else:
        o, s = axis_ids, inv_ids
    D = [[(base + 10 * i + j if (i * 2 + j + which) % 4 != 3 else 0.0) for j in range(len(s))]
         for i in range(len(o))]
    amd = [{'a': tag + x} for x in axis_ids] if md_ax else None
    imd = [{'v': 'inv_' + tag + x} for x in inv_ids] if md_inv else None
    omd, smd = (imd, amd) if axis == 'sample' else (amd, imd)
    cp = (lambda z: None if z is None else [dict(e) for e in z])
    t = Table(np.array(D, float).reshape(len(o), len(s)), list(o), list(s), cp(omd), cp(smd),
              type='OTU table' if which == 0 else None)
    if layout == 'csc' and len(o) and len(s):
        t.data(s[0], 'sample')       # a per-sample read leaves the matrix column-compressed
    return t, M(o, s, D, omd, smd, 'OTU table' if which == 0 else None)


MDCFG = {'none': [(0, 0)] * 3, 'all': [(1, 1)] * 3, 'mixed': [(1, 0), (0, 1), (1, 1)]}


def cases(tier, seed):
    sels = selections()
    out = []
    for axis in ('sample', 'observation'):
        for inv0 in sels + [[]]:        # [] = an operand with ids on the concatenated axis and none on the other
            out.append({'axis': axis, 'inv0': inv0, 'k': 1})
            for inv1 in sels:
                out.append({'axis': axis, 'inv0': inv0, 'inv1': inv1, 'k': 2})
                if tier == 'thorough' or (len(inv0) + len(inv1)) <= 4:
                    out.append({'axis': axis, 'inv0': inv0, 'inv1': inv1, 'k': 3})
    return out


def check(case, acc, tmp):
    import biom
    from biom.exception import DisjointIDError
    axis = case['axis']
    k = case['k']
    sels = selections()
    thirds = sels + [[]] if k == 3 else [None]
    for inv2 in thirds:
        invs = [case['inv0'], case.get('inv1'), inv2][:k]
        for mdname, mdcfg in MDCFG.items():
            for order in (itertools.permutations(range(k)) if mdname == 'none' else [tuple(range(k))]):
                for entry in (('Table.concat', 'biom.concat', 'Table.concat:csc', 'biom.concat:positional') +
                              (('single',) if k == 2 else ())):
                    lay = 'csr'
                    if entry == 'biom.concat:positional' and (mdname != 'none' or order != tuple(range(k))):
                        continue
                    if entry.endswith(':csc'):
                        # the same operands after each was read per sample (column-compressed storage)
                        if mdname != 'none' or order != tuple(range(k)):
                            continue
                        entry, lay = 'Table.concat', 'csc'
                    tabs = [mk(POOLS[i], invs[i], i, mdcfg[i][0], mdcfg[i][1], axis, lay) for i in order]
                    reals = [t for t, _ in tabs]
                    mods = [m for _, m in tabs]
                    kw = dict(inv2=inv2, md=mdname, order=list(order), entry=entry, layout=lay)
                    acc.trans += 1
                    try:
                        if entry == 'Table.concat':
                            others = reals[1:]
                            R = reals[0].concat(others, axis=axis)
                            # the caller's list is an input: using it again must give the same table
                            if len(others) != k - 1 or any(a is not b for a, b in zip(others, reals[1:])):
                                acc.violation('concat:operand-list-modified', 'concat changed the list of operands '
                                              'it was given (%d entries, %d passed)' % (len(others), k - 1),
                                              dict(case, **kw))
                                continue
                            R = reals[0].concat(others, axis=axis)
                        elif entry == 'single':
                            R = reals[0].concat(reals[1], axis=axis)
                        elif entry == 'biom.concat:positional':
                            R = biom.concat(reals, axis)          # the axis given positionally
                        else:
                            R = biom.concat(reals, axis=axis)
                    except Exception as e:
                        acc.violation('concat:raised:' + type(e).__name__, 'concat raised %s: %s (%r)'
                                      % (type(e).__name__, e, kw), dict(case, **kw))
                        continue
                    exp = MD.concat(mods, axis)
                    acc.evals += 1
                    d = diff(R, exp, order=(('set', 'exact') if axis == 'sample' else ('exact', 'set')),
                             ignore_md=('observation',) if axis == 'sample' else ('sample',))
                    if d is not None:
                        clause = 'metadata' if 'metadata' in d else ('type' if d.startswith('type') else
                                                                     ('ids' if ' id' in d else 'values'))
                        acc.violation('concat:' + clause, '%r: %s' % (kw, d), dict(case, **kw))
                        continue
                    # the same content through the id-keyed accessors (the result's lookups must be its own)
                    okid = True
                    try:
                        for ax_, ids_ in (('observation', exp.o), ('sample', exp.c)):
                            rids = [str(i) for i in R.ids(ax_)]
                            for i_ in ids_:
                                if R.index(i_, ax_) != rids.index(i_) or not R.exists(i_, ax_):
                                    okid = False
                        for oi_, o_ in enumerate(exp.o):
                            for si_, s_ in enumerate(exp.c):
                                if float(R.get_value_by_ids(o_, s_)) != exp.m[oi_][si_]:
                                    okid = False
                            if exp.c and [float(x) for x in R.data(o_, 'observation')] != \
                                    [exp.m[oi_][exp.c.index(str(c_))] for c_ in R.ids()]:
                                okid = False
                    except Exception:
                        okid = False
                    if not okid:
                        acc.violation('concat:id-keyed-access', 'index / get_value_by_ids / data(id) of the result '
                                      'disagree with its own ids and matrix: %r' % (kw,), dict(case, **kw))
                        continue
                    acc.count('clause:result')
                    acc.count('entry:' + entry)
                    tot = float(R.sum())
                    if tot != sum(m.total() for m in mods):
                        acc.violation('concat:grand-total', 'total %r != sum of operand totals' % tot, dict(case, **kw))
                    P.state(acc, O.content_key(R))
                    acc.outcomes.add(O.content_key(R))
                    if all(m.total() != 0 for m in mods):
                        acc.nontrivial.add(h64((axis, repr(invs), mdname, order, entry)))
    # non-disjoint operand sets must be refused (k >= 2): every shared id, every pair of operands that share it,
    # under the default error profile and under one that lets duplicate ids through the constructor (the
    # requirement is concat's own)
    import biom.err as err
    from biom.exception import TableException
    if k == 2:
        combos = [((0, 1), shared, pos, None) for shared in POOLS[0] for pos in range(len(POOLS[1]) + 1)]
    elif k == 3:
        combos = [(pair, POOLS[pair[0]][0], pos, inv2) for pair in ((0, 1), (0, 2), (1, 2)) for pos in (0, -1)
                  for inv2 in (case['inv0'][:1], case['inv1'], U)]
    else:
        combos = []
    for (a, b), shared, pos, inv2 in combos:
        invs = [case['inv0'], case.get('inv1'), inv2][:k]
        for profile in ('default', 'all-ignore'):
            for entry in ('Table.concat', 'biom.concat'):
                tabs = []
                for i in range(k):
                    ids = list(POOLS[i])
                    if i == b:
                        ids.insert(pos if pos >= 0 else len(ids), shared)
                    tabs.append(mk(ids, invs[i], i, 0, 0, axis)[0])
                acc.trans += 1
                acc.evals += 1
                c = dict(case, pair=[a, b], shared=shared, pos=pos, inv2=inv2, profile=profile, entry=entry)
                old = err.seterr(all='ignore') if profile != 'default' else None
                try:
                    if entry == 'Table.concat':
                        tabs[0].concat(tabs[1:], axis=axis)
                    else:
                        biom.concat(tabs, axis=axis)
                    acc.violation('concat:non-disjoint-accepted', 'operands %d and %d of %d share %r on the %s axis '
                                  'but %s did not refuse (error profile: %s)' % (a, b, k, shared, axis, entry, profile), c)
                except (DisjointIDError, TableException):
                    acc.count('clause:non-disjoint-refused')
                    acc.count('clause:non-disjoint-refused:k%d:%s' % (k, profile))
                except Exception as e:
                    acc.violation('concat:raised:' + type(e).__name__, 'non-disjoint concat raised %s, not a '
                                  'refusal' % type(e).__name__, c)
                finally:
                    if old is not None:
                        err.seterr(**old)


def run(run):
    cs = cases(run.tier, run.seed)
    P.run_cases(run, cs, check, nchunks=256)
    run.extra['bound'] = {'universe': U, 'pools': POOLS, 'md_configs': list(MDCFG), 'cases': len(cs),
                          'k3_restriction': None if not run.quick else 'k=3 only where the first two other-axis '
                          'selections have <= 4 ids together',
                          'hash_seed': __import__('os').environ.get('PYTHONHASHSEED')}
    vacuity(run, ['clause:result', 'clause:non-disjoint-refused', 'clause:non-disjoint-refused:k3:all-ignore',
                  'clause:non-disjoint-refused:k2:default', 'entry:Table.concat', 'entry:biom.concat',
                  'entry:single'])
    # iteration order of id sets is an environment choice: the enumeration is repeated under other hash seeds
    hash_seed_reruns(run, (1, 2) if run.quick else (1, 2, 3, 4, 5))
    run.assumptions.append('other-axis order and other-axis metadata of the result are not part of the '
                           'property (id set compared, metadata on the concatenated axis only)')


def replay(case):
    base = {k: case[k] for k in ('axis', 'inv0', 'inv1', 'k') if k in case}
    return P.replay_case(check, base)
