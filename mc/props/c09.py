"""C09 – merge is the pointwise sum over the union/intersection of IDs.

Engine E2.  Id universe {o1,o2,o3} x {s1,s2,s3}; each operand's axis is an ordered
selection of ids, so every overlap pattern (disjoint, nested, partial, identical,
differently ordered) occurs.  All operand pairs x 4 union/intersection modes x metadata
on neither / receiver / other / both x metadata functions; list form on the fast path.
"""
import itertools

import numpy as np

from .. import model as MD
from .. import observe as O
from .. import pipeline as P
from ..compare import diff
from ..core import h64, hash_seed_reruns, vacuity
from ..model import M, ModelRefuse

LEVEL = 'model_checking'
RULE = ('every ordered pair of operands whose axes are ordered selections (1..2 ids quick, 1..3 thorough) '
        'from a 3-id universe per axis x {union,intersection}^2 x metadata on neither/receiver/other/both x '
        '{default, custom, None(union/union only)} metadata functions x operand layout; list form: all '
        'triples from a reduced selection set; non-trivial = both operands have a non-zero cell, distinct '
        'by (selections, mode, metadata config, function)')

UO = ['o1', 'o2', 'o3']
US = ['s1', 's2', 's3']


def selections(U, kmax):
    out = []
    for k in range(1, kmax + 1):
        for p in itertools.permutations(U, k):
            out.append(list(p))
    return out


def val(tag, o, s):
    oi, si = UO.index(o), US.index(s)
    if tag == 'A':
        return 0.0 if (oi + si) % 3 == 2 else 1.0 + 4 * oi + si
    if tag == 'B':
        if (o, s) == ('o1', 's1'):
            return -1.0                  # cancels A's value for the same pair
        if o == 'o3':
            return [2.0, -2.0, 0.0][si]  # a row whose mixed-sign values cancel (its total is 0, it is not empty)
        return 0.0 if (oi * 2 + si) % 4 == 3 else 0.25 + 2 * oi + 8 * si
    return 0.0 if (oi + 2 * si) % 3 == 1 else 100.0 + oi + 10 * si


def mk(tag, o, s, md_o, md_s, layout='csr'):
    from biom import Table
    D = [[val(tag, x, y) for y in s] for x in o]
    omd = [{'t': tag + x, 'only' + tag: 1} for x in o] if md_o else None
    smd = [{'e': tag + y} for y in s] if md_s else None
    cp = (lambda z: None if z is None else [dict(e) for e in z])
    t = Table(np.array(D, float).reshape(len(o), len(s)), list(o), list(s), cp(omd), cp(smd))
    if layout == 'csc':
        t.data(s[0], 'sample')
    m = M(o, s, D, omd, smd)
    if layout == 'counted_then_zeroed':
        # the number of stored entries is read, then an in-place change along the observations lowers it
        t.nnz
        t.get_table_density()
        t.transform(lambda v, i, md: np.where(v > 4.5, 0, v), axis='observation', inplace=True)
        m = m.transform('observation', lambda v, i, md: [0 if x > 4.5 else x for x in v])
    return t, m


def custom(x, y):
    """a metadata-merge function that never invents metadata: union of both, receiver wins, tagged"""
    if x is None and y is None:
        return None
    d = dict(y or {})
    d.update(x or {})
    d['merged'] = ('x' if x is not None else '') + ('y' if y is not None else '')
    return d


def custom2(x, y):
    """a second merge function, distinguishable from `custom` on every input pair: the other operand wins"""
    if x is None and y is None:
        return None
    d = dict(x or {})
    d.update(y or {})
    d['merged2'] = ('x' if x is not None else '') + ('y' if y is not None else '')
    return d


# (receiver obs md, receiver sample md, other obs md, other sample md): the first six with every function
# variant, the remaining ten of the sixteen with the default functions and with two different functions
MDCFG = [(0, 0, 0, 0), (1, 1, 0, 0), (0, 0, 1, 1), (1, 1, 1, 1), (1, 0, 0, 1), (0, 1, 1, 0)]
MDCFG += [c for c in itertools.product((0, 1), repeat=4) if c not in MDCFG]
FUNCS = ['default', 'custom', 'none', 'two', 'sample_only', 'observation_only']
FUNC_ARGS = {'default': (None, None), 'custom': (custom, custom), 'none': (None, None), 'two': (custom, custom2),
             'sample_only': (custom, None), 'observation_only': (None, custom2)}     # (sample f, observation f)


def cases(tier, seed):
    k = 2 if tier == 'quick' else 3
    so, ss = selections(UO, k), selections(US, k)
    out = []
    for ao in so:
        for as_ in ss:
            for bo in so:
                out.append({'kind': 'pairs', 'ao': ao, 'as': as_, 'bo': bo, 'k': k, 'tier': tier})
    red_o = [['o1'], ['o2', 'o1'], ['o3', 'o2']]
    red_s = [['s1', 's2'], ['s2'], ['s3', 's1']]
    for a in itertools.product(red_o, red_s):
        out.append({'kind': 'list', 'ao': a[0], 'as': a[1]})
    return out


def judge(acc, case, r, exp, what, check_md=True, **kw):
    acc.evals += 1
    d = diff(r, exp, order=('set', 'set'), ignore_md=not check_md)
    if d is not None:
        clause = 'metadata' if 'metadata' in d else ('ids' if ' id' in d else 'values')
        c = dict(case)
        c.update(kw)
        acc.violation('merge:%s:%s' % (clause, what), '%s: %s' % (kw, d), c)
        return False
    acc.count('clause:' + what)
    return True


def check(case, acc, tmp):
    from biom.exception import TableException
    if case['kind'] == 'list':
        return check_list(case, acc)
    k = case['k']
    ao, as_ = case['ao'], case['as']
    only = case.get('only')
    # the ten further metadata configurations and the per-axis function variants on a reduced set of receiver
    # selections (quick: 6 of them; thorough: the 81 with at most two ids per axis) x every selection of the other operand
    extras = (len(ao) <= 2 and len(as_) <= 2) if case.get('tier') != 'quick' else \
        (ao in (['o1', 'o2'], ['o2', 'o1'], ['o3']) and as_ in (['s1', 's2'], ['s2']))
    for bo in [case['bo']]:
        for bs in selections(US, k):
            for ci, cfg in enumerate(MDCFG):
                if ci >= 6 and not extras:
                    continue
                amo, ams, bmo, bms = cfg
                for sm in ('union', 'intersection'):
                    for om in ('union', 'intersection'):
                        for fn in ((FUNCS if extras else FUNCS[:3]) if ci < 6 else ('default', 'two')):
                            if fn == 'none' and (sm, om) != ('union', 'union'):
                                continue        # None functions are documented for the fast (union) merge only
                            lays = ('csr', 'csc', 'counted_then_zeroed') if ci == 0 and fn == 'default' else ('csr',)
                            for lay in lays:
                                kw = dict(bo=bo, bs=bs, md=list(cfg), sample=sm, observation=om, f=fn, layout=lay)
                                if only is not None and only != kw:
                                    continue
                                one(acc, case, ao, as_, kw)


def one(acc, case, ao, as_, kw):
    from biom.exception import TableException
    bo, bs, cfg, sm, om, fn, lay = kw['bo'], kw['bs'], kw['md'], kw['sample'], kw['observation'], kw['f'], kw['layout']
    amo, ams, bmo, bms = cfg
    A, mA = mk('A', ao, as_, amo, ams, lay)
    B, mB = mk('B', bo, bs, bmo, bms, lay)
    smf, omf = FUNC_ARGS[fn]
    args = {}
    if fn == 'none':
        args = dict(sample_metadata_f=None, observation_metadata_f=None)
    else:
        if smf is not None:
            args['sample_metadata_f'] = smf
        if omf is not None:
            args['observation_metadata_f'] = omf
    try:
        exp = MD.merge(mA, mB, sm, om, smf, omf)
    except ModelRefuse:
        exp = None
    acc.trans += 1
    try:
        R = A.merge(B, sample=sm, observation=om, **args)
    except TableException as e:
        acc.evals += 1
        if exp is not None:
            c = dict(case, only=kw)
            acc.violation('merge:refused', 'merge refused (%s) although the result is non-empty: %r' % (e, kw), c)
        else:
            acc.count('clause:empty-intersection-refused')
        return
    except Exception as e:
        c = dict(case, only=kw)
        acc.violation('merge:raised:' + type(e).__name__, 'merge raised %s: %s for %r' % (type(e).__name__, e, kw), c)
        return
    if exp is None:
        acc.evals += 1
        c = dict(case, only=kw)
        acc.violation('merge:empty-accepted', 'empty intersection did not raise: %r' % kw, c)
        return
    fast = (sm, om) == ('union', 'union') and (fn == 'none' or not (amo or ams))
    what = ('fast-path' if fast else 'general-path')
    ok = judge(acc, case, R, exp, what, check_md=(fn != 'none'), only=kw)
    if ok:
        P.state(acc, O.content_key(R))
        acc.outcomes.add(O.content_key(R))
        if mA.total() != 0 and mB.total() != 0:
            acc.nontrivial.add(h64((tuple(ao), tuple(as_), repr(kw))))
        if (sm, om) == ('union', 'union'):
            acc.evals += 1
            tot = float(R.sum())
            if tot != mA.total() + mB.total():
                acc.violation('merge:grand-total', 'union/union total %r != %r + %r' % (tot, mA.total(), mB.total()),
                              dict(case, only=kw))
            else:
                acc.count('clause:grand-total')


def check_list(case, acc):
    red_o = [['o1'], ['o2', 'o1'], ['o3', 'o2'], ['o1', 'o2', 'o3']]
    red_s = [['s1', 's2'], ['s2'], ['s3', 's1']]
    ao, as_ = case['ao'], case['as']
    for bo, bs, co, cs in itertools.product(red_o, red_s, red_o, red_s):
        for form in ('list', 'tuple'):
            A, mA = mk('A', ao, as_, 0, 0)
            B, mB = mk('B', bo, bs, 0, 0)
            C, mC = mk('C', co, cs, 0, 0)
            exp = MD.merge(MD.merge(mA, mB), mC)
            acc.trans += 1
            kw = dict(bo=bo, bs=bs, co=co, cs=cs, form=form)
            others = [B, C] if form == 'list' else (B, C)
            try:
                R = A.merge(others)
                # the caller's collection is an input: it is left as it was, and merging it again gives the same
                if len(others) != 2 or others[0] is not B or others[1] is not C:
                    acc.violation('merge:operand-list-modified', 'merge changed the %s of tables it was given '
                                  '(%d entries afterwards)' % (form, len(others)), dict(case, **kw))
                    continue
                R = A.merge(others)
            except Exception as e:
                acc.violation('merge:list-raised:' + type(e).__name__, 'merge(list) raised %s: %s' % (type(e).__name__, e),
                              dict(case, **kw))
                continue
            if judge(acc, case, R, exp, 'list-form', **kw):
                acc.nontrivial.add(h64(('list', tuple(ao), tuple(as_), repr(kw))))


def run(run):
    cs = cases(run.tier, run.seed)
    P.run_cases(run, cs, check, nchunks=256)
    run.extra['bound'] = {'selection_size': 2 if run.quick else 3, 'universe': [UO, US], 'md_configs': MDCFG,
                          'functions': FUNCS, 'hash_seed': __import__('os').environ.get('PYTHONHASHSEED')}
    vacuity(run, ['clause:fast-path', 'clause:general-path', 'clause:list-form', 'clause:grand-total',
                  'clause:empty-intersection-refused'])
    if not run.quick:
        hash_seed_reruns(run, (1, 2))
    run.assumptions += ['id order of the result is not part of the property (sets compared)',
                        'None metadata functions only with union/union (documented as the fast merge)',
                        'custom metadata function never invents metadata for ids that have none in either operand']


def replay(case):
    return P.replay_case(check, case)
