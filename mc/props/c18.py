"""C18 – metadata updates affect exactly the named IDs and keys and nothing else.

Part 1 (E2): tables with / without existing metadata x layout x axis x every subset of
(table ids + 2 unknown ids) as the mapping x key sets {new, existing, both};
del_metadata for every key subset x axis in {sample, observation, whole}.
Part 2 (E1): add_metadata / del_metadata judged against the model after every operation
history of bounded depth.
Part 3 (E2): every mapping file of <= L lines from a 10-line menu x option sets through
MetadataMap.from_file (reference parser), _add_metadata and the add-metadata command.
"""
import io
import itertools
import os

import numpy as np

from .. import explorer as E
from .. import observe as O
from .. import ops as OPS
from .. import pipeline as P
from ..compare import diff
from ..core import h64, vacuity
from ..model import M

LEVEL = 'model_checking'
RULE = ('part 1: {no md, md on both axes} x 3 layouts x axis x every subset of ids+2 unknown as mapping x 3 '
        'key sets; del_metadata x every key subset x 3 axes. part 2: BFS over histories with the metadata '
        'ops judged against the dense model. part 3: every sequence of <= L lines (L=5 quick, 6 thorough '
        'for the parser; shorter for the command paths) over a 10-line menu x 6 option sets; non-trivial = '
        'well-formed file with >= 1 data row / mapping hitting >= 1 table id; distinct by case spec')

OID = ['o10', 'o9', 'o2']
SID = ['s2', 's1', 's3']
META_OPS = ('add_md', 'del_md', 'del_md_all', 'del_md_whole')


# ----------------------------------------------------------------------------- part 1
def make(case):
    from biom import Table
    D = np.array([[1, 0, 2], [0, 3, 0], [4, 0.5, 0]], float)
    omd = [{'k': 'a%d' % i, 'tax': ['x', 'y%d' % i]} for i in range(3)] if case['md'] else None
    smd = [{'k': 'b%d' % j, 'g': 'u'} for j in range(3)] if case['md'] else None
    cp = (lambda x: None if x is None else [{k: (list(v) if isinstance(v, list) else v) for k, v in e.items()}
                                            for e in x])
    t = Table(D, OID, SID, cp(omd), cp(smd), type='OTU table')
    if case['layout'] == 'csc':
        t.data(SID[0], 'sample')
    elif case['layout'] == 'unsorted':
        t = t.sort_order(SID[::-1], axis='sample').sort_order(SID, axis='sample')
        t.type = 'OTU table'
    return t, M(OID, SID, D.tolist(), omd, smd, 'OTU table')


KEYSETS = {'new': {'n': 'N'}, 'existing': {'k': 'K'}, 'both': {'n': 'N', 'k': 'K', 'tax': ['z']},
           'none-values': {'n': None, 'k': None}}


def cases1(tier):
    out = []
    for md in (False, True):
        for lay in ('csr', 'csc', 'unsorted'):
            out.append({'part': 1, 'md': md, 'layout': lay})
    return out


def check1(case, acc, tmp):
    t0, m0 = make(case)
    P.state(acc, 'src', O.concrete_key(t0))
    acc.nontrivial.add(h64(('p1', case['md'], case['layout'])))

    def bad(sig, detail, **kw):
        c = dict(case)
        c.update(kw)
        acc.violation(sig, detail, c)
    for ax in ('observation', 'sample'):
        ids = m0.ids(ax)
        universe = ids + ['unknown1', 'unknown2']
        for r in range(len(universe) + 1):
            for sub in itertools.combinations(universe, r):
                for kname, kv in KEYSETS.items():
                    t, _ = make(case)
                    mp = {i: dict(kv, tag='t_' + i) for i in sub}
                    mp_model = {i: dict(kv, tag='t_' + i) for i in sub}
                    acc.trans += 1
                    acc.evals += 1
                    try:
                        ret = t.add_metadata(mp, axis=ax)
                    except Exception as e:
                        bad('add_metadata:raised', 'add_metadata(%r) raised %s: %s' % (mp, type(e).__name__, e),
                            axis=ax, subset=list(sub), keys=kname)
                        continue
                    exp = m0.add_md(ax, mp_model)
                    d = diff(t, exp)
                    if d is None and not any(i in ids for i in sub):
                        # nothing named is on the axis: nothing at all may change, not even "no metadata" into
                        # "one empty entry per id" (the library tells the two apart)
                        before, _ = make(case)
                        if (t.metadata(axis=ax) is None) != (before.metadata(axis=ax) is None) or not (t == before):
                            d = 'no named id is on the axis, yet %s metadata went from %r to %r (table == its former ' \
                                'self: %r)' % (ax, before.metadata(axis=ax), t.metadata(axis=ax), t == before)
                    if d is not None:
                        what = 'metadata' if 'metadata' in d else 'ids-or-values'
                        bad('add_metadata:' + what, 'add_metadata(%s ids %r, keys %s): %s' % (ax, list(sub), kname, d),
                            axis=ax, subset=list(sub), keys=kname)
                    else:
                        acc.count('clause:add_metadata')
                        acc.outcomes.add(O.content_key(t))
        # deletion: every key subset x axis
        allkeys = ['k', 'g', 'tax', 'absent']
        for r in range(len(allkeys) + 1):
            for ks in itertools.combinations(allkeys, r):
                for dax in ('sample', 'observation', 'whole'):
                    if ax == 'sample':      # enumerate once, not per outer axis
                        continue
                    t, _ = make(case)
                    acc.trans += 1
                    acc.evals += 1
                    try:
                        t.del_metadata(list(ks), dax)
                    except Exception as e:
                        bad('del_metadata:raised', 'del_metadata(%r,%s) raised %s: %s' % (ks, dax, type(e).__name__, e),
                            keys=list(ks), axis=dax)
                        continue
                    d = diff(t, m0.del_md(dax, list(ks)))
                    if d is not None:
                        what = 'metadata' if 'metadata' in d else 'ids-or-values'
                        bad('del_metadata:' + what, 'del_metadata(%r,%s): %s' % (ks, dax, d), keys=list(ks), axis=dax)
                    else:
                        acc.count('clause:del_metadata')
    # one mapping value object given to two ids (taken from another table's metadata, i.e. already in the
    # library's own representation), then a second update naming only one of them
    donor, _ = make({'md': True, 'layout': 'csr'})
    for ax in ('observation', 'sample'):
        ids = m0.ids(ax)
        for a, b in itertools.permutations(ids, 2):
            for shared_kind in ('library-entry', 'plain-dict'):
                t, _ = make(case)
                entry = donor.metadata(ids[0], ax) if shared_kind == 'library-entry' else {'k': 'a0', 'extra': 1}
                exp = m0.add_md(ax, {a: dict(entry), b: dict(entry)}).add_md(ax, {a: {'x': 1}})
                acc.trans += 2
                acc.evals += 1
                try:
                    t.add_metadata({a: entry, b: entry}, axis=ax)
                    t.add_metadata({a: {'x': 1}}, axis=ax)
                except Exception as e:
                    bad('add_metadata:raised', 'shared-entry scenario raised %s: %s' % (type(e).__name__, e),
                        axis=ax, ids=[a, b], shared=shared_kind)
                    continue
                d = diff(t, exp)
                if d is not None:
                    bad('add_metadata:shared-entry', 'the same mapping value given to %s and %s, then an update '
                        'naming only %s: %s' % (a, b, a, d), axis=ax, ids=[a, b], shared=shared_kind)
                elif diff(donor, make({'md': True, 'layout': 'csr'})[1]) is not None:
                    bad('add_metadata:donor-changed', 'the table the mapping values were read from changed',
                        axis=ax, ids=[a, b], shared=shared_kind)
                else:
                    acc.count('clause:add_metadata-shared-entry')
    for dax in ('sample', 'observation', 'whole'):
        t, _ = make(case)
        acc.trans += 1
        acc.evals += 1
        t.del_metadata(axis=dax)
        d = diff(t, m0.del_md(dax, None))
        if d is not None:
            bad('del_metadata:all', 'del_metadata(None,%s): %s' % (dax, d), axis=dax)


# ----------------------------------------------------------------------------- part 3
MENU = ['#SampleID\tA\tB\n', '# a comment\n', '\n', 'x\t1\t2.5\n', 'y\t"q"\n', 'z\t a b \tc;d|e\n',
        'x\t9\t9\n', 'w\t1\t2\t3\n', '   \n', 'y\t7\tp; q\n', 'q\t-3\t+4.5e1\n',
        # characters str.splitlines() breaks on but a file iterator does not, inside a field
        'x\ta\x0bb\x0cc\u2028d\x85e\t8\n']
OPTSETS = {
    'default': {},
    'keepquotes': {'strip_quotes': False},
    'nostrip': {'suppress_stripping': True},
    'header2': {'header': ['id', 'AA']},
    'header3': {'header': ['id', 'AA', 'BB']},
    'process': {'process': {'A': 'int', 'B': 'sc'}},
    'process2': {'process': {'A': 'float', 'B': 'scpipe'}},
}


def _p_int(x):
    try:
        return int(x)
    except ValueError:
        return x


def _p_float(x):
    try:
        return float(x)
    except ValueError:
        return x


PROC = {'int': _p_int, 'float': _p_float,
        'sc': lambda x: [e.strip() for e in x.split(';')],
        'scpipe': lambda x: [[e.strip() for e in y.split(';')] for y in x.split('|')]}


def ref_parse(lines, strip_quotes=True, suppress_stripping=False, header=None, process=None):
    """reference parser of the mapping-file format: 'ERR' for ill-formed files"""
    def clean(x):
        if strip_quotes:
            x = x.replace('"', '')
        if not suppress_stripping:
            x = x.strip()
        return x
    header = list(header) if header else None
    rows = []
    for line in lines:
        line = clean(line)
        if not line.strip():
            continue                                   # blank
        if line.startswith('#'):
            if header is None:
                header = line[1:].strip().split('\t')   # first '#' line names the columns
            continue                                   # any other '#' line is a comment
        if header is None:
            return 'OUT'      # a data row before the header line: outside the row grammar
        cells = [clean(c) for c in line.split('\t')]
        rows.append(cells)
    if not header or not rows:
        return 'ERR'
    ids = [r[0] for r in rows]
    if len(set(ids)) != len(ids):
        return 'ERR'
    out = {}
    for r in rows:
        r = r + [''] * (len(header) - len(r))
        d = {}
        for col, cell in zip(header[1:], r[1:]):
            d[col] = PROC[process[col]](cell) if process and col in process else cell
        out[r[0]] = d
    return out


def cases3(tier):
    L = 5 if tier == 'quick' else 6
    out = []
    for k in range(1, L + 1):
        if k <= 3:
            for seq in itertools.product(range(len(MENU)), repeat=k):
                out.append({'part': 3, 'seq': list(seq)})
        else:
            # longer files are grouped by their first three lines to keep case specs small
            for pre in itertools.product(range(len(MENU)), repeat=3):
                out.append({'part': 3, 'prefix': list(pre), 'len': k})
    return out


def check3(case, acc, tmp):
    from biom.parse import MetadataMap
    from biom.exception import BiomParseException
    if 'seq' in case:
        seqs = [tuple(case['seq'])]
    else:
        seqs = [tuple(case['prefix']) + rest
                for rest in itertools.product(range(len(MENU)), repeat=case['len'] - 3)]
    for seq in seqs:
        lines = [MENU[i] for i in seq]
        for oname, o in OPTSETS.items():
            exp = ref_parse(lines, **o)
            if exp == 'OUT':
                acc.count('outside-grammar')
                continue
            kw = {k: v for k, v in o.items() if k != 'process'}
            if 'process' in o:
                kw['process_fns'] = {c: PROC[f] for c, f in o['process'].items()}
            acc.trans += 1
            acc.evals += 1
            try:
                got = dict(MetadataMap.from_file(list(lines), **kw))
            except BiomParseException:
                got = 'ERR'
            except Exception as e:
                got = 'EXC %s' % type(e).__name__
            if got != exp:
                if exp == 'ERR':
                    sig = 'mapping-file:illformed-accepted'
                elif got == 'ERR' or str(got).startswith('EXC'):
                    sig = 'mapping-file:wellformed-refused'
                else:
                    sig = 'mapping-file:relation'
                acc.violation(sig + ':' + oname, 'lines %r options %s: parsed %r, rows describe %r'
                              % (lines, oname, got, exp), {'part': 3, 'seq': list(seq), 'opt': oname})
            else:
                acc.count('clause:mapping-file')
                if exp != 'ERR':
                    acc.nontrivial.add(h64((seq, oname)))
                    acc.outcomes.add(h64(repr(sorted(exp.items()))))
                else:
                    acc.count('clause:mapping-file-refused')
        # the _add_metadata path (shorter files only)
        if len(seq) <= 3:
            check3_add(seq, lines, acc, tmp)


def _table3():
    from biom import Table
    D = np.array([[1, 2, 0], [0, 3, 4.]])
    oids, sids = ['x', 'w'], ['y', 'x', 'q']
    return (Table(D, oids, sids, None, [{'A': 'old', 'keep': 'me'}, {'A': 'old', 'keep': 'me'},
                                        {'A': 'old', 'keep': 'me'}]),
            M(oids, sids, D.tolist(), None, [{'A': 'old', 'keep': 'me'}] * 3))


CLIOPTS = {
    'plain': ({}, {}),
    'casts': ({'int_fields': ['A'], 'sc_separated': ['B']}, {'process': {'A': 'int', 'B': 'sc'}}),
    'casts2': ({'float_fields': ['A'], 'sc_pipe_separated': ['B']}, {'process': {'A': 'float', 'B': 'scpipe'}}),
    'header': ({'sample_header': ['id', 'AA'], 'observation_header': ['id', 'AA']}, {'header': ['id', 'AA']}),
    # the two header overrides are independent of each other: (options, reference sample axis, reference obs axis)
    'header_obs': ({'observation_header': ['id', 'AA']}, {}, {'header': ['id', 'AA']}),
    'header_samp': ({'sample_header': ['id', 'AA']}, {'header': ['id', 'AA']}, {}),
    'header_diff': ({'sample_header': ['id', 'AA'], 'observation_header': ['id', 'BB', 'CC']},
                    {'header': ['id', 'AA']}, {'header': ['id', 'BB', 'CC']}),
}


def check3_add(seq, lines, acc, tmp):
    from biom.cli.metadata_adder import _add_metadata
    from biom.exception import BiomParseException
    for cname, opt in CLIOPTS.items():
        cli_kw = opt[0]
        for ax in ('sample', 'observation', 'both'):
            if ax == 'both':
                if len(opt) == 2:
                    continue
                exps = [ref_parse(lines, **opt[1]), ref_parse(lines, **opt[2])]
                if 'OUT' in exps:
                    continue
                exp = 'ERR' if 'ERR' in exps else exps
            else:
                exp = ref_parse(lines, **(opt[1] if ax == 'sample' or len(opt) == 2 else opt[2]))
                if exp == 'OUT':
                    continue
            t, m = _table3()
            before = O.content(t)
            acc.trans += 1
            acc.evals += 1
            args = dict(cli_kw)
            if ax in ('sample', 'both'):
                args['sample_metadata'] = list(lines)
            if ax in ('observation', 'both'):
                args['observation_metadata'] = list(lines)
            case = {'part': 3, 'seq': list(seq), 'cli': cname, 'axis': ax}
            try:
                r = _add_metadata(t, **args)
            except BiomParseException:
                if exp != 'ERR':
                    acc.violation('add-metadata:wellformed-refused', '_add_metadata refused %r' % lines, case)
                elif O.content(t) != before:
                    acc.violation('add-metadata:refused-but-changed', 'refused mapping file changed the table', case)
                continue
            except Exception as e:
                acc.violation('add-metadata:raised:' + type(e).__name__, '_add_metadata(%r) raised %s: %s'
                              % (lines, type(e).__name__, e), case)
                continue
            if exp == 'ERR':
                acc.violation('add-metadata:illformed-accepted', '_add_metadata accepted %r' % lines, case)
                continue
            want = m.add_md('sample', exp[0]).add_md('observation', exp[1]) if ax == 'both' else m.add_md(ax, exp)
            d = diff(r, want)
            if d is not None:
                acc.violation('add-metadata:result', '_add_metadata(%s, %s) with %r: %s' % (ax, cname, lines, d), case)
            else:
                acc.count('clause:add-metadata-function')


def cases3cmd(tier):
    out = []
    L = 2 if tier == 'quick' else 3
    for k in range(1, L + 1):
        for seq in itertools.product(range(len(MENU)), repeat=k):
            out.append({'part': '3cmd', 'seq': list(seq)})
    return out


def check3cmd(case, acc, tmp):
    """the add-metadata command itself (JSON output for partial mappings, HDF5 when every id is covered)"""
    import h5py
    from biom import load_table
    from biom.cli.metadata_adder import add_metadata as cmd
    lines = [MENU[i] for i in case['seq']]
    exp0 = ref_parse(lines, process={'A': 'int'})
    if exp0 in ('ERR', 'OUT'):
        return
    from biom import Table
    Dc = np.array([[1, 2.]])
    t, m = Table(Dc, ['x'], ['y', 'x']), M(['x'], ['y', 'x'], Dc.tolist())
    src = os.path.join(tmp, 'am_in.biom')
    mf = os.path.join(tmp, 'am_map.txt')
    for p in (src, mf):
        if os.path.exists(p):
            os.unlink(p)
    with h5py.File(src, 'w') as fh:
        t.to_hdf5(fh, 'verif')
    with open(mf, 'w') as fh:
        fh.writelines(lines)
    for ax, hdr in itertools.product(('sample', 'observation'), (None, 'own')):
        exp = exp0
        if hdr:
            # the header override of this axis, with a different one given for the other axis
            exp = ref_parse(lines, process={'A': 'int'}, header=['id', 'ZZ'])
            if exp in ('ERR', 'OUT'):
                continue
        ids = m.ids(ax)
        covers = all(i in exp for i in ids) and len({tuple(sorted(exp[i])) for i in ids}) == 1
        # an HDF5 category is one homogeneous dataset: text and numbers in one column are written as text (outside
        # C01's domain), so the HDF5 form is only demanded where every category is all-text or all-numeric
        covers = covers and all(len({isinstance(exp[i][k], str) for i in ids}) == 1 for k in exp[ids[0]])
        for as_json in ((True, False) if covers and not hdr else (True,)):
            dst = os.path.join(tmp, 'am_out.biom')
            if os.path.exists(dst):
                os.unlink(dst)
            acc.trans += 1
            acc.evals += 1
            kw = dict(input_fp=src, output_fp=dst, sample_metadata_fp=None, observation_metadata_fp=None,
                      sc_separated=None, sc_pipe_separated=None, int_fields='A', float_fields=None,
                      sample_header=None, observation_header=None, output_as_json=as_json)
            kw['sample_metadata_fp' if ax == 'sample' else 'observation_metadata_fp'] = mf
            if hdr:
                kw['sample_header'] = 'id,ZZ' if ax == 'sample' else 'id,QQ,RR'
                kw['observation_header'] = 'id,ZZ' if ax == 'observation' else 'id,QQ,RR'
            c = dict(case, axis=ax, json=as_json, header=hdr)
            try:
                cmd.callback(**kw)
                r = load_table(dst)
            except Exception as e:
                acc.violation('add-metadata-command:raised:' + type(e).__name__,
                              'add-metadata (%s, json=%s, header=%s) with %r raised %s: %s'
                              % (ax, as_json, hdr, lines, type(e).__name__, str(e)[:200]), c)
                continue
            d = diff(r, m.add_md(ax, exp), ignore_type=True)
            if d is not None:
                acc.violation('add-metadata-command:result', 'add-metadata (%s, json=%s, header=%s) with %r: %s'
                              % (ax, as_json, hdr, lines, d), c)
            else:
                acc.count('clause:add-metadata-command' + ('-json' if as_json else '-hdf5'))
                acc.nontrivial.add(h64(('cmd', tuple(case['seq']), ax, as_json, hdr)))


def check(case, acc, tmp):
    if case['part'] == 1:
        return check1(case, acc, tmp)
    if case['part'] == 3:
        if 'opt' in case or 'cli' in case:
            case = {'part': 3, 'seq': case['seq']}
        return check3(case, acc, tmp)
    return check3cmd({'part': '3cmd', 'seq': case['seq']}, acc, tmp)


def spec(depth):
    allops = OPS.all_ops()
    last = [o for o in allops if o[0] in META_OPS]
    return E.Spec(OPS.start_tables(), allops, depth, check_ops=META_OPS, last_level_ops=last,
                  label='histories-d%d' % depth)


def run(run):
    cs = cases1(run.tier) + cases3(run.tier) + cases3cmd(run.tier)
    P.run_cases(run, cs, check, nchunks=192)
    depth = 2 if run.quick else 3
    info = E.explore(run, spec(depth))
    run.extra['bound'] = {'menu': MENU, 'option_sets': list(OPTSETS), 'cli_option_sets': list(CLIOPTS),
                          'max_lines_parser': 5 if run.quick else 6, 'max_lines_add_metadata': 3,
                          'max_lines_command': 2 if run.quick else 3, 'part2_depth': info['depth_completed']}
    vacuity(run, ['clause:add_metadata', 'clause:add_metadata-shared-entry', 'clause:del_metadata', 'clause:mapping-file',
                  'clause:mapping-file-refused', 'clause:add-metadata-function',
                  'clause:add-metadata-command-json', 'clause:add-metadata-command-hdf5'] +
            ['op:' + o for o in META_OPS])
    run.assumptions.append('HDF5 output of add-metadata only for mappings that cover every id with the same '
                           'categories, each all-text or all-numeric (the writer refuses differing category sets and writes a mixed '
                           'column as text: outside C01\'s domain)')


def replay(case):
    if 'history' in case:
        return E.replay_history(spec(len(case['history'])), case)
    return P.replay_case(check, case)
