"""C11 – partition is an exact split; collapse conserves what it aggregates.

Engine E2.  Tables with integer / dyadic values and metadata x layout x axis x EVERY
labelling of the axis over {A, B, None, list-valued} given as function of id, function of
metadata, id->label dict and label->[ids] dict; partition flags; collapse flags;
one-to-many: every assignment of a pathway sequence of length 0..3 over {A, B} to each
vector x {add, divide}.
"""
import collections
import itertools

import numpy as np

from .. import observe as O
from .. import ops as OPS
from .. import pipeline as P
from ..compare import diff
from ..core import h64, vacuity
from ..model import M, other

LEVEL = 'model_checking'
RULE = ('tables {2x3, 3x2, 3x3 (+4x2, 2x4 thorough)} x 2 layouts x axis x every labelling of the axis over '
        '{A,B,None,[x,A] (a list, not in sorted order),0,\'\'} x 4 labelling forms x partition flags (remove_empty x ignore_none) and collapse '
        'flags (norm x min_group_size x include_collapsed_metadata); one-to-many: every assignment of one of '
        'the 15 pathway sequences (length 0..3 over {A,B}) to each vector x {add,divide} x axis; non-trivial '
        '= at least two distinct labels in use; distinct by (table, axis, labelling, form)')

GA, GB = 'K10', 'K2'      # group labels whose natural order (K2 < K10) differs from their string order (K10 < K2)
LABELS = [GA, GB, None, ['x', GA], 0, '']      # incl. falsy labels that are not None; the list label is NOT in sorted order
PATHS = [()] + [p for k in (1, 2, 3) for p in itertools.product((GA, GB), repeat=k)]   # 15 sequences


def hashable(x):
    return tuple(x) if isinstance(x, list) else x


def make(shape, layout, zero=False, partial=False):
    from biom import Table
    N, Mm = shape
    # ids of unequal length, the shorter ones first (a group's ids must not inherit the width of its first member)
    o = ['o' + 'x' * i + '%d' % (i + 1) for i in range(N)]
    s = ['s%d' % (j + 1) + 'y' * (2 * j) for j in range(Mm)]
    D = [[((1 + i * Mm + j) * 0.5 if (i + 2 * j) % 4 != 3 else 0.0) for j in range(Mm)] for i in range(N)]
    if N and Mm:
        D[0][0] = 0.0
    if zero:
        # an all-zero observation and an all-zero sample (a label carried only by empty vectors)
        D[N - 1] = [0.0] * Mm
        for i in range(N):
            D[i][Mm - 1] = 0.0
    omd = [{'k': 'm' + x, 'slot': i} for i, x in enumerate(o)]
    smd = [{'k': 'm' + x, 'slot': j} for j, x in enumerate(s)]
    if partial:
        # metadata missing on the second id of each axis only (the constructor turns None into an empty entry)
        for md_ in (omd, smd):
            if len(md_) > 1:
                md_[1] = {}
    cp = (lambda z: [(dict(e) if e or not partial else None) for e in z])
    t = Table(np.array(D, float).reshape(N, Mm), o, s, cp(omd), cp(smd), type='OTU table')
    if layout == 'csc':
        t.data(s[0], 'sample')
    elif layout == 'unsorted':
        t = t.sort_order(s[::-1], axis='sample').sort_order(s, axis='sample')
        t.type = 'OTU table'
    return t, M(o, s, D, omd, smd, 'OTU table')


def cases(tier, seed):
    shapes = [(2, 3), (3, 2), (3, 3)] + ([(4, 2), (2, 4)] if tier == 'thorough' else [])
    out = []
    for sh in shapes:
        for lay in ('csr', 'csc', 'unsorted'):
            for axis in ('sample', 'observation'):
                n = sh[1] if axis == 'sample' else sh[0]
                for lab in itertools.product(range(len(LABELS)), repeat=n):
                    out.append({'kind': 'label', 'shape': list(sh), 'layout': lay, 'axis': axis,
                                'lab': list(lab)})
                    if lay == 'csr' and sh == (3, 3):
                        out.append({'kind': 'label', 'shape': list(sh), 'layout': lay, 'axis': axis,
                                    'lab': list(lab), 'zero': True})
    # metadata missing on some ids only; an empty other axis (the vectors to label are all of length zero)
    for sh, axis in (((3, 3), 'sample'), ((3, 3), 'observation'), ((2, 3), 'sample'), ((3, 2), 'observation')):
        n = sh[1] if axis == 'sample' else sh[0]
        for lab in itertools.product(range(len(LABELS)), repeat=n):
            out.append({'kind': 'label', 'shape': list(sh), 'layout': 'csr', 'axis': axis, 'lab': list(lab),
                        'partial': True})
    for sh, axis in (((0, 2), 'sample'), ((0, 3), 'sample'), ((2, 0), 'observation'), ((3, 0), 'observation')):
        n = sh[1] if axis == 'sample' else sh[0]
        for lab in itertools.product(range(len(LABELS)), repeat=n):
            out.append({'kind': 'label', 'shape': list(sh), 'layout': 'csr', 'axis': axis, 'lab': list(lab),
                        'partition_only': True})
    otm_shapes = [(2, 3), (3, 2)] + ([(3, 3)] if tier == 'thorough' else [])
    for sh in otm_shapes:
        for lay in ('csr', 'unsorted'):
            for axis in ('sample', 'observation'):
                n = sh[1] if axis == 'sample' else sh[0]
                if tier == 'quick' and n > 2:
                    # quick: all 15^2 assignments on the first two vectors, third vector fixed
                    for a in itertools.product(range(len(PATHS)), repeat=2):
                        out.append({'kind': 'otm', 'shape': list(sh), 'layout': lay, 'axis': axis,
                                    'paths': list(a) + [4]})
                else:
                    for a in itertools.product(range(len(PATHS)), repeat=n):
                        out.append({'kind': 'otm', 'shape': list(sh), 'layout': lay, 'axis': axis,
                                    'paths': list(a)})
    # pathway iterators that are not generators: an incomplete pathway ('!') raises IndexError from next() and the
    # iterator goes on; strict=False skips it, strict=True refuses
    inc = [q for k in (1, 2, 3) for q in itertools.product((GA, GB, '!'), repeat=k) if '!' in q]
    for sh in ((2, 3), (3, 2)):
        for axis in ('sample', 'observation'):
            n = sh[1] if axis == 'sample' else sh[0]
            for first in inc:
                for second in ((), (GA,), (GB, GA), ('!', GB)):
                    seqs = [list(first), list(second)] + [[GA]] * (n - 2)
                    out.append({'kind': 'otm', 'shape': list(sh), 'layout': 'csr', 'axis': axis, 'seqs': seqs})
    return out


class PathIter:
    def __init__(self, seq):
        self.seq, self.k = list(seq), 0

    def __iter__(self):
        return self

    def __next__(self):
        if self.k >= len(self.seq):
            raise StopIteration
        g = self.seq[self.k]
        self.k += 1
        if g == '!':
            raise IndexError('incomplete pathway')
        return (['root', g], g)


def check(case, acc, tmp):
    if case['kind'] == 'otm':
        return check_otm(case, acc)
    from biom.exception import TableException
    mk = (lambda: make(case['shape'], case['layout'], case.get('zero', False), case.get('partial', False)))
    t0, m0 = mk()
    axis = case['axis']
    ids = m0.ids(axis)
    labs = [LABELS[k] for k in case['lab']]
    L = dict(zip(ids, labs))
    if len({repr(x) for x in labs}) >= 2:
        acc.nontrivial.add(h64(repr(case)))
    P.state(acc, 'src', O.concrete_key(t0))

    def bad(sig, detail, **kw):
        acc.violation(sig, detail, dict(case, **kw))

    def fresh(x):
        return list(x) if isinstance(x, list) else x
    cur = {}        # the table being partitioned / collapsed right now

    def reading(i, md):
        # a labelling function that looks something up in the same table along the other axis while it is called
        oth_ids = m0.ids(other(axis))
        if oth_ids:
            cur['t'].data(oth_ids[0], axis=other(axis))
        return fresh(L[i])
    forms = {'by_id': lambda i, md: fresh(L[i]), 'by_md': lambda i, md: fresh(labs[md['slot']]),
             'by_id_reading': reading}
    if case.get('partial'):
        del forms['by_md']          # the labelling by metadata needs the category on every id
    strlabs = all((isinstance(x, str) and x != '') or x is None for x in labs)
    if strlabs and any(x is not None for x in labs):
        d_c = {i: L[i] for i in ids if L[i] is not None}
        forms['dict_id_to_label'] = d_c
        d_d = collections.OrderedDict()
        for i in ids:
            if L[i] is not None:
                d_d.setdefault(L[i], []).append(i)
        forms['dict_label_to_ids'] = dict(d_d)
    # ------------------------------------------------------------------ partition
    for fname, f in forms.items():
        for rem in (False, True):
            for ign in (False, True):
                t, _ = mk()
                cur['t'] = t
                acc.trans += 1
                kw = dict(form=fname, remove_empty=rem, ignore_none=ign)
                try:
                    parts = list(t.partition(f, axis=axis, remove_empty=rem, ignore_none=ign))
                except Exception as e:
                    bad('partition:raised:' + type(e).__name__, 'partition raised %s: %s' % (type(e).__name__, e), **kw)
                    continue
                acc.evals += 1
                groups = collections.OrderedDict()
                for k, i in enumerate(ids):
                    lab = hashable(L[i])
                    if ign and lab is None:
                        continue
                    groups.setdefault(lab, []).append(k)
                got_labels = [p for p, _ in parts]
                if got_labels != list(groups):
                    bad('partition:labels', 'partition labels %r, expected %r' % (got_labels, list(groups)), **kw)
                    continue
                okall = True
                seen = []
                for (p, tab), mem in zip(parts, groups.values()):
                    exp = m0.filter_idx(axis, mem)
                    if rem:
                        exp = exp.remove_empty('whole')
                    d = diff(tab, exp, by_id=True)       # also through the part's own id lookups
                    if d is not None:
                        clause = 'other-axis' if (other(axis) in d and 'ids' in d) else \
                            ('metadata' if 'metadata' in d else ('members' if ' ids' in d else 'values'))
                        bad('partition:' + clause, 'part %r: %s' % (p, d), part=repr(p), **kw)
                        okall = False
                        break
                    seen += [ids[k] for k in mem]
                    P.state(acc, 'part', O.content_key(tab))
                if okall:
                    exp_cover = [i for i in ids if not (ign and L[i] is None)]
                    if sorted(seen) != sorted(exp_cover) or len(set(seen)) != len(seen):
                        bad('partition:cover', 'parts cover %r, expected %r' % (seen, exp_cover), **kw)
                    else:
                        acc.count('clause:partition')
                        acc.count('form:' + fname)
    # ------------------------------------------------------------------ collapse (one-to-one)
    def aslabel(x):
        if x is None:
            return None          # a None label is a label like any other for collapse (its group is named None)
        if isinstance(x, list):
            return GA + '|x'
        return {0: 'zero', '': 'empty'}.get(x, x) if not isinstance(x, str) or x == '' else x
    if case.get('partition_only'):
        return          # collapsing vectors of length zero is refused by the constructor of the result
    L2 = {i: aslabel(L[i]) for i in ids}
    def creading(i, md):
        oth_ids = m0.ids(other(axis))
        if oth_ids:
            cur['t'].data(oth_ids[0], axis=other(axis))
        return L2[i]
    cforms = {'by_id': lambda i, md: L2[i], 'by_md': lambda i, md: L2[ids[md['slot']]], 'by_id_reading': creading}
    if case.get('partial'):
        del cforms['by_md']
    for fname, f in cforms.items():
        for norm in (False, True):
            for mgs in (1, 2):
                for inc in (True, False):
                    t, _ = mk()
                    cur['t'] = t
                    kw = dict(form=fname, norm=norm, min_group_size=mgs, include_collapsed_metadata=inc)
                    acc.trans += 1
                    groups = m0.groups(axis, lambda i, md: L2[i])
                    kept = [g for g, mem in groups.items() if len(mem) >= mgs]
                    try:
                        C = t.collapse(f, norm=norm, min_group_size=mgs, include_collapsed_metadata=inc, axis=axis)
                    except TableException as e:
                        acc.evals += 1
                        if kept:
                            bad('collapse:refused', 'collapse refused (%s) although groups %r qualify' % (e, kept), **kw)
                        else:
                            acc.count('clause:collapse-nothing-left')
                        continue
                    except Exception as e:
                        bad('collapse:raised:' + type(e).__name__, 'collapse raised %s: %s' % (type(e).__name__, e), **kw)
                        continue
                    acc.evals += 1
                    exp = m0.collapse(axis, lambda i, md: L2[i], norm=norm, min_group_size=mgs, include_md=inc)
                    d = diff(C, exp, tol=norm)
                    if d is not None:
                        clause = 'collapsed_ids' if 'collapsed_ids' in d else \
                            ('metadata' if 'metadata' in d else ('groups' if ' ids' in d else 'values'))
                        bad('collapse:' + clause, '%r: %s' % (kw, d), **kw)
                        continue
                    acc.count('clause:collapse')
                    acc.outcomes.add(O.content_key(C))
                    P.state(acc, 'res', O.content_key(C))
                    if not norm and len(kept) == len(groups):
                        cm = OPS.adopt(C)
                        oth = other(axis)
                        for k in range(len(m0.ids(oth))):
                            if sum(cm.vec(oth, k)) != sum(m0.vec(oth, k)):
                                bad('collapse:totals', 'other-axis total of %s changed' % m0.ids(oth)[k], **kw)
                                break
                        else:
                            acc.count('clause:collapse-totals')


def check_otm(case, acc):
    t0, m0 = make(case['shape'], case['layout'])
    axis = case['axis']
    ids = m0.ids(axis)
    if 'seqs' in case:
        raw = {i: tuple(q) for i, q in zip(ids, case['seqs'])}
        paths = {i: tuple(g for g in q if g != '!') for i, q in raw.items()}
    else:
        raw = None
        paths = {i: PATHS[k] for i, k in zip(ids, case['paths'])}
    oth_ids = m0.ids(other(axis))
    if len({p for p in paths.values()}) >= 2:
        acc.nontrivial.add(h64(repr(case)))

    def gen(id_, md):
        for g in paths[id_]:
            yield (['root', g], g)
    f = gen if raw is None else (lambda id_, md: PathIter(raw[id_]))
    if raw is not None:
        t, _ = make(case['shape'], case['layout'])
        acc.trans += 1
        acc.evals += 1
        try:
            t.collapse(f, norm=False, one_to_many=True, strict=True, axis=axis)
            acc.violation('one-to-many:strict-accepted', 'strict=True accepted the incomplete pathways %r' % (raw,), dict(case))
        except IndexError:
            acc.count('clause:otm-strict-refused')
        except Exception as e:
            acc.violation('one-to-many:raised:' + type(e).__name__, 'collapse(one_to_many, strict=True) raised %s: %s'
                          % (type(e).__name__, e), dict(case))
    for mode in ('add', 'divide'):
        t, _ = make(case['shape'], case['layout'])
        acc.trans += 1
        kw = dict(mode=mode)
        groups = sorted({g for p in paths.values() for g in p})
        try:
            C = t.collapse(f, norm=False, one_to_many=True, one_to_many_mode=mode, axis=axis)
        except Exception as e:
            acc.evals += 1
            if groups:
                acc.violation('one-to-many:raised:' + type(e).__name__, 'collapse(one_to_many) raised %s: %s'
                              % (type(e).__name__, e), dict(case, **kw))
            else:
                acc.count('clause:otm-no-groups')
            continue
        acc.evals += 1
        vecs = {}
        for g in groups:
            v = [0.0] * len(oth_ids)
            for k, i in enumerate(ids):
                mult = paths[i].count(g)
                if not mult:
                    continue
                src = m0.vec(axis, k)
                for j in range(len(oth_ids)):
                    v[j] += src[j] * mult if mode == 'add' else src[j] / len(paths[i]) * mult
            vecs[g] = v
        if axis == 'sample':
            exp = M(m0.o, groups, [[vecs[g][j] for g in groups] for j in range(len(oth_ids))], m0.omd, None, m0.type)
        else:
            exp = M(groups, m0.c, [vecs[g] for g in groups], None, m0.smd, m0.type)
        d = diff(C, exp, order=(('exact', 'set') if axis == 'sample' else ('set', 'exact')),
                 tol=(mode == 'divide'), ignore_md=(axis,))
        if d is not None:
            clause = 'groups' if ' id' in d else ('metadata' if 'metadata' in d else 'values')
            acc.violation('one-to-many:%s:%s' % (clause, mode), '%r: %s' % (paths, d), dict(case, **kw))
            continue
        acc.count('clause:one-to-many-' + mode)
        if raw is not None:
            acc.count('clause:one-to-many-incomplete-skipped')
        acc.outcomes.add(O.content_key(C))
        P.state(acc, 'otm', O.content_key(C))
        if mode == 'divide':
            tot = sum(sum(m0.vec(axis, k)) for k, i in enumerate(ids) if paths[i])
            got = float(C.sum())
            if abs(got - tot) > 1e-9 * max(1.0, abs(tot)):
                acc.violation('one-to-many:totals:divide', 'divide mode total %r, mapped vectors total %r' % (got, tot),
                              dict(case, **kw))
            else:
                acc.count('clause:one-to-many-totals')


def run(run):
    cs = cases(run.tier, run.seed)
    P.run_cases(run, cs, check, nchunks=256)
    run.extra['bound'] = {'cases': len(cs), 'labels': [repr(x) for x in LABELS], 'pathway_sequences': len(PATHS)}
    vacuity(run, ['clause:partition', 'clause:collapse', 'clause:collapse-totals', 'clause:one-to-many-add',
                  'clause:one-to-many-divide', 'clause:one-to-many-totals', 'clause:otm-strict-refused',
                  'clause:one-to-many-incomplete-skipped', 'form:by_id', 'form:by_md',
                  'form:dict_id_to_label', 'form:dict_label_to_ids'])
    run.assumptions += ['collapse labels are strings (None / list labels are mapped to "N" / "A|x"): group labels '
                        'become ids', 'the Path metadata of one-to-many groups is not part of the property',
                        'when no group reaches min_group_size a refusal (TableException) is accepted']


def replay(case):
    base = {k: v for k, v in case.items() if k in ('kind', 'shape', 'layout', 'axis', 'lab', 'paths', 'zero', 'seqs', 'partial', 'partition_only')}
    return P.replay_case(check, base)
