"""C19 – summaries and exports report the numbers that are in the matrix.

Engine E1.  In every distinct concrete state reached by the history explorer (full
alphabet, follow mode) every summary / export is computed by the library and compared
with plain numpy on the table's dense matrix, ids and metadata.
"""
import contextlib
import io
import math
import os
import tempfile

import numpy as np

from .. import explorer as E
from .. import observe as O
from .. import ops as OPS
from ..core import vacuity

LEVEL = 'model_checking'
RULE = ('explicit-state BFS over operation histories (full alphabet); in every distinct concrete state all '
        'summaries (sum, min, max, nonzero_counts, density, reduce, per-sample stats, summarize-table x 4 '
        'modes, table-ids, head, to_dataframe dense/sparse, metadata_to_dataframe, export-metadata) are '
        'compared with numpy on the dense matrix; a transition is non-trivial when it changed the '
        'concrete state, distinct by (source state, op)')

_TMP = None
COUNTS = {}


_COUNT = None


def _cnt(name):
    if _COUNT is not None:
        _COUNT(name)


_MAG = [0.0]      # magnitude of the matrix being judged: sums of cancelling values are only determined up to
                  # the rounding of their terms (set per state by summaries())


def _close(a, b):
    a = np.asarray(a, float)
    b = np.asarray(b, float)
    return a.shape == b.shape and np.allclose(a, b, rtol=1e-12, atol=1e-12 * _MAG[0], equal_nan=True)


def fmt3(x):
    return '%1.3f' % x


def expected_summary(D, oids, sids, omd_keys, smd_keys, qualitative, observations):
    """independent rendering of the summarize-table report (LC_ALL=C)"""
    if observations:
        D = D.T
        oids, sids = sids, oids
        omd_keys, smd_keys = smd_keys, omd_keys
    per = {}
    for j, s in enumerate(sids):
        col = D[:, j]
        per[s] = int((col != 0).sum()) if qualitative else float(col.sum())
    vals = list(per.values())
    lines = []
    n_obs, n_samp = len(oids), len(sids)
    if observations:
        lines.append('Num samples: %d' % n_obs)
        lines.append('Num observations: %d' % n_samp)
    else:
        lines.append('Num samples: %d' % n_samp)
        lines.append('Num observations: %d' % n_obs)
    if not qualitative:
        lines.append('Total count: %d' % sum(vals))
        dens = (np.count_nonzero(D) / float(D.size)) if D.size else 0.0
        lines.append('Table density (fraction of non-zero values): %1.3f' % dens)
    lines.append('')
    if qualitative:
        lines.append('Sample/observations summary:' if observations else 'Observations/sample summary:')
    else:
        lines.append('Counts/sample summary:')
    if vals:
        stats = (min(vals), max(vals), float(np.median(vals)), float(np.mean(vals)))
    else:
        stats = (0, 0, 0, 0)
    lines.append(' Min: ' + fmt3(stats[0]))
    lines.append(' Max: ' + fmt3(stats[1]))
    lines.append(' Median: ' + fmt3(stats[2]))
    lines.append(' Mean: ' + fmt3(stats[3]))
    lines.append(' Std. dev.: ' + fmt3(float(np.std(vals)) if vals else float('nan')))
    sk = '; '.join(smd_keys) if smd_keys is not None else 'None provided'
    ok = '; '.join(omd_keys) if omd_keys is not None else 'None provided'
    lines.append(' Sample Metadata Categories: %s' % (ok if observations else sk))
    lines.append(' Observation Metadata Categories: %s' % (sk if observations else ok))
    lines.append('')
    lines.append('Observations/sample detail:' if qualitative else 'Counts/sample detail:')
    head = lines
    detail = sorted(((k, fmt3(v), v) for k, v in per.items()), key=lambda x: x[2])
    return head, [(k, f) for k, f, _ in detail]


def summaries(t, m, report):
    global _TMP, _COUNT
    _COUNT = getattr(report, 'count', None)
    from biom.util import compute_counts_per_sample_stats
    from biom.cli.table_summarizer import _summarize_table
    oids = [str(i) for i in t.ids('observation')]
    sids = [str(i) for i in t.ids('sample')]
    N, Mm = len(oids), len(sids)
    D = np.asarray(t.matrix_data.toarray(), float).reshape(N, Mm)
    if np.isnan(D).any() or np.isinf(D).any():
        return          # NaN/inf are outside every property's domain
    _MAG[0] = float(np.abs(D).sum()) if D.size else 0.0

    def bad(sig, detail):
        report(sig, detail)

    def guard(name, f):
        try:
            return True, f()
        except Exception as e:
            bad('raised:' + name, '%s raised %s: %s' % (name, type(e).__name__, str(e)[:200]))
            return False, None

    # ---- first access: every accessor below converts the stored layout as a side effect, so whichever runs
    # first is the only one that sees the layout the history left behind.  Which one that is rotates with the
    # concrete state (deterministically), so over the explored states each of them meets every layout.
    if N and Mm:
        import functools
        rot = O.concrete_key(t) % 7

        def fold(ax):
            vs = [D[:, j] for j in range(Mm)] if ax == 'sample' else [D[i, :] for i in range(N)]
            return [functools.reduce(lambda a, b: a * 2 + b, [float(x) for x in v]) for v in vs]
        first = {0: ('reduce-fold(observation)', lambda: t.reduce(lambda a, b: a * 2 + b, 'observation'),
                     lambda: fold('observation'), 'reduce:observation:order'),
                 1: ('reduce-fold(sample)', lambda: t.reduce(lambda a, b: a * 2 + b, 'sample'),
                     lambda: fold('sample'), 'reduce:sample:order'),
                 2: ('nonzero_counts(observation)', lambda: t.nonzero_counts('observation', binary=False),
                     lambda: D.sum(axis=1), 'nonzero_counts:observation:sum'),
                 3: ('nonzero_counts(sample)', lambda: t.nonzero_counts('sample', binary=True),
                     lambda: (D != 0).sum(axis=0), 'nonzero_counts:sample:binary'),
                 4: ('sum(observation)', lambda: t.sum('observation'), lambda: D.sum(axis=1), 'sum:observation'),
                 5: ('to_dataframe(dense=True)', lambda: t.to_dataframe(dense=True).values, lambda: D,
                     'to_dataframe(dense=True)')}.get(rot)
        if first is not None:
            ok, got = guard(first[0], first[1])
            if ok:
                if not _close(got, first[2]()):
                    bad(first[3], '%s as the first access after the history: %r, matrix says %r'
                        % (first[0], np.asarray(got).tolist(), np.asarray(first[2]()).tolist()))
                else:
                    _cnt('clause:first-access')
    # ---- sums
    for ax, exp in (('whole', D.sum()), ('sample', D.sum(axis=0)), ('observation', D.sum(axis=1))):
        ok, got = guard('sum(%s)' % ax, lambda: t.sum(ax))
        if ok:
            if not _close(got, exp):
                bad('sum:' + ax, 'sum(%s)=%r, matrix says %r' % (ax, np.asarray(got).tolist(), np.asarray(exp).tolist()))
            else:
                _cnt('clause:sum')
    if N and Mm:
        # ---- min / max over the non-zero values, only where every vector has one
        for ax in ('sample', 'observation', 'whole'):
            vecs = [D[:, j] for j in range(Mm)] if ax in ('sample', 'whole') else [D[i, :] for i in range(N)]
            if not all((v != 0).any() for v in vecs):
                continue
            for fn, red in (('min', min), ('max', max)):
                per = [red(float(x) for x in v if x != 0) for v in vecs]
                exp = red(per) if ax == 'whole' else per
                ok, got = guard('%s(%s)' % (fn, ax), lambda: getattr(t, fn)(ax))
                if ok:
                    if not _close(got, exp):
                        bad('%s:%s' % (fn, ax), '%s(%s)=%r, non-zero values give %r'
                            % (fn, ax, np.asarray(got).tolist(), exp))
                    else:
                        _cnt('clause:minmax')
        # ---- nonzero_counts
        for ax, binexp, sumexp in (('sample', (D != 0).sum(axis=0), D.sum(axis=0)),
                                   ('observation', (D != 0).sum(axis=1), D.sum(axis=1)),
                                   ('whole', [(D != 0).sum()], [D.sum()])):
            for binary, exp in ((True, binexp), (False, sumexp)):
                ok, got = guard('nonzero_counts(%s,binary=%s)' % (ax, binary),
                                lambda: t.nonzero_counts(ax, binary=binary))
                if ok:
                    if not _close(got, exp):
                        bad('nonzero_counts:%s:%s' % (ax, 'binary' if binary else 'sum'),
                            'nonzero_counts(%s, binary=%s)=%r, matrix says %r'
                            % (ax, binary, np.asarray(got).tolist(), np.asarray(exp).tolist()))
                    else:
                        _cnt('clause:nonzero_counts')
        ok, got = guard('get_table_density', t.get_table_density)
        if ok:
            if not _close(got, np.count_nonzero(D) / float(D.size)):
                bad('density', 'get_table_density()=%r, matrix says %r' % (got, np.count_nonzero(D) / float(D.size)))
            else:
                _cnt('clause:density')
        ok, got = guard('nonzero', lambda: sorted((str(a), str(b)) for a, b in t.nonzero()))
        if ok:
            exp = sorted((oids[i], sids[j]) for i in range(N) for j in range(Mm) if D[i, j] != 0)
            if got != exp:
                bad('nonzero', 'nonzero() lists %r, matrix has %r' % (got, exp))
        # ---- reduce
        for ax, exp in (('sample', D.sum(axis=0)), ('observation', D.sum(axis=1))):
            ok, got = guard('reduce(%s)' % ax, lambda: t.reduce(lambda a, b: a + b, ax))
            if ok:
                if not _close(got, exp):
                    bad('reduce:' + ax, 'reduce(add,%s)=%r, matrix says %r'
                        % (ax, np.asarray(got).tolist(), exp.tolist()))
                else:
                    _cnt('clause:reduce')
            # an order-sensitive fold: the elements of each vector must arrive in axis order
            import functools
            vecs_ = [D[:, j] for j in range(Mm)] if ax == 'sample' else [D[i, :] for i in range(N)]
            exp_fold = [functools.reduce(lambda a, b: a * 2 + b, [float(x) for x in v]) for v in vecs_]
            ok, got = guard('reduce-fold(%s)' % ax, lambda: t.reduce(lambda a, b: a * 2 + b, ax))
            if ok:
                if not _close(got, exp_fold):
                    bad('reduce:' + ax + ':order', 'reduce(x*2+y, %s)=%r, folding each vector in axis order gives %r'
                        % (ax, np.asarray(got).tolist(), exp_fold))
                else:
                    _cnt('clause:reduce')
            ok, got = guard('reduce-max(%s)' % ax, lambda: t.reduce(lambda a, b: np.maximum(a, b), ax))
            if ok and not _close(got, D.max(axis=0) if ax == 'sample' else D.max(axis=1)):
                bad('reduce:' + ax, 'reduce(max,%s)=%r disagrees with the matrix' % (ax, np.asarray(got).tolist()))
    # ---- per-sample stats
    for binary in (False, True):
        ok, got = guard('compute_counts_per_sample_stats', lambda: compute_counts_per_sample_stats(t, binary))
        if not ok:
            continue
        per = {s: (float((D[:, j] != 0).sum()) if binary else float(D[:, j].sum())) for j, s in enumerate(sids)}
        vals = list(per.values())
        exp = (min(vals), max(vals), float(np.median(vals)), float(np.mean(vals))) if vals else (0, 0, 0, 0)
        gper = {str(k): float(v) for k, v in got[4].items()}
        if not _close(list(got[:4]), list(exp)) or set(gper) != set(per) or \
                any(not _close(gper[k], per[k]) for k in per):
            bad('per-sample-stats:' + ('binary' if binary else 'counts'),
                'compute_counts_per_sample_stats(binary=%s)=%r, matrix says %r %r'
                % (binary, (got[:4], gper), exp, per))
        else:
            _cnt('clause:per-sample-stats')
    # ---- summarize-table report, 4 modes
    omd, smd = t.metadata(axis='observation'), t.metadata(axis='sample')
    omk = None if omd is None else list(omd[0].keys())
    smk = None if smd is None else list(smd[0].keys())
    if N and Mm:
        for qual in (False, True):
            for obsmode in (False, True):
                ok, text = guard('summarize-table', lambda: _summarize_table(t, qual, obsmode))
                if not ok:
                    continue
                head, detail = expected_summary(D, oids, sids, omk, smk, qual, obsmode)
                lines = text.split('\n')
                ghead, gdetail = lines[:len(head)], lines[len(head):]
                mode = '%s:%s' % ('qualitative' if qual else 'quantitative', 'observations' if obsmode else 'samples')
                if ghead != head:
                    diffs = [(a, b) for a, b in zip(ghead, head) if a != b][:3]
                    bad('summarize-table:figures:' + mode, 'report lines differ (got, expected): %r' % (diffs,))
                    continue
                gd = []
                for ln in gdetail:
                    k, _, v = ln.rpartition(': ')
                    gd.append((k, v))
                if sorted(gd) != sorted(detail) or [float(v) for _, v in gd] != sorted(float(v) for _, v in gd):
                    bad('summarize-table:detail:' + mode, 'detail lines %r, expected %r' % (gd, detail))
                else:
                    _cnt('clause:summarize-table')
    # ---- DataFrame exports
    import pandas as pd
    ok, df = guard('to_dataframe(dense=True)', lambda: t.to_dataframe(dense=True))
    if ok:
        if [str(x) for x in df.index] != oids or [str(x) for x in df.columns] != sids or \
                not np.array_equal(np.asarray(df.values, float).reshape(N, Mm), D):
            bad('to_dataframe(dense=True)', 'dense DataFrame %r disagrees with the matrix %r' % (df.values.tolist(), D.tolist()))
        else:
            _cnt('clause:to_dataframe-dense')
    if N and Mm:
        ok, df = guard('to_dataframe(dense=False)', lambda: t.to_dataframe(dense=False))
        if ok:
            vals = np.asarray(df.to_numpy(dtype=float), float).reshape(N, Mm)
            if [str(x) for x in df.index] != oids or [str(x) for x in df.columns] != sids:
                bad('to_dataframe(dense=False):labels', 'sparse DataFrame labels %r / %r' % (list(df.index), list(df.columns)))
            elif not np.array_equal(vals, D):
                nanzero = np.isnan(vals) & (D == 0)
                rest_ok = np.array_equal(np.where(nanzero, 0.0, vals), D)
                if nanzero.any() and rest_ok:
                    bad('to_dataframe(dense=False):zero-cell-NaN',
                        'sparse DataFrame reads NaN where the matrix holds 0: %r vs %r' % (vals.tolist(), D.tolist()))
                else:
                    bad('to_dataframe(dense=False):values', 'sparse DataFrame %r disagrees with the matrix %r'
                        % (vals.tolist(), D.tolist()))
            else:
                _cnt('clause:to_dataframe-sparse')
    # ---- metadata export (homogeneous metadata only: the C01 domain)
    for ax, ids, md in (('observation', oids, omd), ('sample', sids, smd)):
        if md is None or not len(md):
            continue
        keys0 = list(md[0].keys())
        # the same categories on every id, each either a list on every id (lengths may differ: shorter ones leave
        # their remaining columns empty) or a scalar on every id
        homo = all(list(e.keys()) == keys0 for e in md) and all(
            len({type(e.get(k)) in (list, tuple) for e in md}) == 1 for k in keys0)
        if not homo:
            continue
        cols, rows = [], []
        width = {k: max(len(e.get(k)) for e in md) for k in keys0 if isinstance(md[0].get(k), (list, tuple))}
        for k in keys0:
            cols += ['%s_%d' % (k, i) for i in range(width[k])] if k in width else [k]
        for e in md:
            r = []
            for k in keys0:
                r += (list(e.get(k)) + [None] * (width[k] - len(e.get(k)))) if k in width else [e.get(k)]
            rows.append(r)
        ok, df = guard('metadata_to_dataframe', lambda: t.metadata_to_dataframe(ax))
        if ok:
            def _cell(x):
                return None if x is None or (isinstance(x, float) and x != x) else x
            if [str(x) for x in df.index] != ids or list(df.columns) != cols or \
                    [[_cell(y) for y in x] for x in df.values.tolist()] != rows:
                bad('metadata_to_dataframe:' + ax, 'metadata frame %r / %r, expected %r / %r'
                    % (list(df.columns), df.values.tolist(), cols, rows))
            else:
                _cnt('clause:metadata_to_dataframe')
        # export-metadata writes that frame as TSV
        if _TMP is None or not os.path.isdir(_TMP):
            _TMP = tempfile.mkdtemp(prefix='verif-c19-')
        dst = os.path.join(_TMP, 'md_%d.tsv' % os.getpid())
        from biom.cli.metadata_exporter import _export_metadata
        ok, _ = guard('export-metadata', lambda: _export_metadata(t, ax, 'input.biom', dst))
        if ok and all(isinstance(x, str) and x and '\t' not in x and '"' not in x and '\n' not in x
                      for r in rows for x in r):
            import csv
            with open(dst, encoding='utf-8', newline='') as fh:
                got = list(csv.reader(fh, delimiter='\t'))
            exp = [[''] + cols] + [[i] + r for i, r in zip(ids, rows)]
            if got != exp:
                bad('export-metadata:' + ax, 'export-metadata wrote %r, expected %r' % (got, exp))
            else:
                _cnt('clause:export-metadata')
    # ---- commands that read a file: table-ids, head, export-metadata
    if N and Mm:
        from biom.cli.table_ids import summarize_table as table_ids_cmd
        from biom.cli.table_head import head as head_cmd
        from biom.cli.metadata_exporter import _export_metadata
        if _TMP is None or not os.path.isdir(_TMP):
            _TMP = tempfile.mkdtemp(prefix='verif-c19-')
        src_json = os.path.join(_TMP, 'in_%d.biom' % os.getpid())
        src_h5 = os.path.join(_TMP, 'in_%d.h5.biom' % os.getpid())
        srcs = []
        try:
            with open(src_json, 'w', encoding='utf-8') as fh:
                fh.write(t.to_json('verif'))
            srcs.append(src_json)
        except Exception:
            pass            # writing is C02's business
        try:
            # quick tier: the HDF5 form for every third content (all of them in the thorough tier)
            if not _QUICK or O.content_key(t) % 3 == 0:
                import h5py
                with h5py.File(src_h5, 'w') as fh:
                    t.to_hdf5(fh, 'verif')
                srcs.append(src_h5)
        except Exception:
            pass            # ... or C01's
        for src in srcs:      # the commands read either BIOM format
            for obsflag, exp in ((False, sids), (True, oids)):
                buf = io.StringIO()
                with contextlib.redirect_stdout(buf):
                    ok, _ = guard('table-ids', lambda: table_ids_cmd.callback(input_fp=src, observations=obsflag))
                if ok:
                    if buf.getvalue().split('\n')[:-1] != exp:
                        bad('table-ids', 'table-ids printed %r, ids are %r' % (buf.getvalue(), exp))
                    else:
                        _cnt('clause:table-ids')
            for n, mm in ((1, 1), (2, 5), (5, 2)):
                dst = os.path.join(_TMP, 'head_%d.txt' % os.getpid())
                ok, _ = guard('head', lambda: head_cmd.callback(input_fp=src, output_fp=dst, n_obs=n, n_samp=mm))
                if ok:
                    got = open(dst, encoding='utf-8').read()
                    exp = ['# Constructed from biom file', '#OTU ID\t' + '\t'.join(sids[:mm])]
                    for i in range(min(n, N)):
                        exp.append(oids[i] + '\t' + '\t'.join(str(np.float64(D[i, j])) for j in range(min(mm, Mm))))
                    if got != '\n'.join(exp):
                        bad('head-command', 'head -n %d -m %d wrote %r, expected %r' % (n, mm, got, '\n'.join(exp)))
                    else:
                        _cnt('clause:head-command')
            os.unlink(src)


def starts(loaded=True):
    """the common start tables plus one whose ids look like format directives / report syntax"""
    from biom import Table
    from ..model import M
    S = dict(OPS.start_tables())
    D = [[1, 0, 2.5], [0, 4, 3]]
    o, c = ['GC50%', 'rep%d: 7'], ['10%%s', '%(a)s', 'ü 3: x']
    omd = [{'k': '50%'}, {'k': '%s'}]
    Dr = [[1, 0], [2, 3], [0, 4]]
    romd = [{'taxonomy': ['k__A'], 'n': 'one'}, {'taxonomy': ['k__A', 'p__B', 's__C'], 'n': 'two'},
            {'taxonomy': ['k__A', 'p__B'], 'n': 'three'}]
    S['ragged3x2'] = (lambda: Table(np.array(Dr, float), ['r1', 'r2', 'r3'], ['x', 'y'], [dict(e) for e in romd], None),
                      M(['r1', 'r2', 'r3'], ['x', 'y'], Dr, romd, None))
    S['oddids2x3'] = (lambda: Table(np.array(D, float), list(o), list(c), [dict(e) for e in omd], None),
                      M(o, c, D, omd, None))
    if loaded:
        S.update(OPS.loaded_start_tables())      # tables read from a file (thorough tier)
    return S


def spec(depth, loaded=True):
    return E.Spec(starts(loaded), OPS.all_ops(), depth, check_ops=(), on_state=summaries,
                  label='d%d' % depth)


_QUICK = False


def run(run):
    global _TMP, _QUICK
    _QUICK = run.quick
    import shutil
    depth = 2 if run.quick else 3
    _TMP = tempfile.mkdtemp(prefix='verif-c19-')
    try:
        info = E.explore(run, spec(depth, loaded=not run.quick))
    finally:
        shutil.rmtree(_TMP, ignore_errors=True)
        _TMP = None
    run.extra['depth_completed'] = info['depth_completed']
    run.assumptions += ['LC_ALL=C for the report\'s number grouping', 'tie order of report detail lines is free',
                        'metadata export only checked for homogeneous metadata (same categories on every id)']
    vacuity(run, ['op:' + o[0] for o in OPS.all_ops()] +
            ['clause:' + c for c in ('sum', 'minmax', 'nonzero_counts', 'density', 'reduce', 'per-sample-stats',
                                     'summarize-table', 'to_dataframe-dense', 'metadata_to_dataframe',
                                     'table-ids', 'head-command', 'export-metadata')])


def replay(case):
    return E.replay_history(spec(len(case['history'])), case)
