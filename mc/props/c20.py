"""C20 – the error-handling profile is honoured and scoped.

Engine E5 (explicit-state search on biom.err).
Part 1: all sequences of seterr / seterrcall / errstate enter / exit-normally /
exit-by-exception (and: build a manager now, enter it later) up to the depth bound (nesting <= 3), and a
reduced alphabet to FIXPOINT; after every transition geterr()/geterrcall() must equal a
reference model of a scoped configuration stack; in every reached state the reaction of
the 'empty' and 'obsdup' kinds is probed and compared with the model's prediction.
Part 2: every kind x every reaction x {non-triggering, triggering exactly that kind} x
call site.
"""
import io
import itertools
import warnings
from unittest import mock

import numpy as np

from ..core import h64, vacuity

LEVEL = 'model_checking'
RULE = ('part 1: explicit-state BFS over all sequences of 25 profile operations (nesting <= 3) to the depth '
        'bound, a reduced alphabet to fixpoint, and a 13-operation alphabet in which a manager is built at one moment and entered at a later one (at most one such object at a time); state = (profile, saved profiles of the open errstate '
        'managers, callbacks); every transition checked against a stack model and two reaction probes per '
        'state; non-trivial transition = changes the canonical state. part 2: 7 kinds x 5 reactions x '
        '{triggering exactly that kind, non-triggering} x call sites')

KINDS = ['empty', 'obssize', 'sampsize', 'obsdup', 'sampdup', 'obsmdsize', 'sampmdsize']
REACTIONS = ['ignore', 'raise', 'call', 'print', 'warn']
MAXNEST = 3


def cb_one(t):
    CALLS.append(('cb_one', t))


def cb_two(t):
    CALLS.append(('cb_two', t))


CALLS = []
CBS = {'cb_one': cb_one, 'cb_two': cb_two}

FULL_ALPHABET = (
    [('seterr', k, r) for k in ('empty', 'obsdup') for r in ('ignore', 'raise', 'call')] +
    [('seterr_all', 'warn'), ('seterr_all', 'raise')] +
    [('bad', 'reaction'), ('bad', 'kind'), ('bad', 'valid_then_invalid'), ('bad', 'invalid_then_valid'),
     ('bad', 'all_reaction')] +
    [('seterrcall', 'empty', 'cb_one'), ('seterrcall', 'empty', 'cb_two'), ('seterrcall', 'nokind', 'cb_two')] +
    [('trigger', 'empty'), ('trigger', 'obsdup')] +
    [('enter', i) for i in range(5)] + [('exit',), ('exit_exc',), ('exit_base',)])
ENTER_ARGS = [{'empty': 'raise'}, {'obsdup': 'ignore'}, {'all': 'print'}, {'empty': 'call', 'sampdup': 'warn'},
              {'nokind': 'raise'}, {'all': 'Raise'}]
REDUCED = ([('seterr', 'empty', r) for r in ('ignore', 'raise', 'call')] + [('seterr_all', 'warn')] +
           [('seterrcall', 'empty', 'cb_one'), ('seterrcall', 'empty', 'cb_two'), ('trigger', 'empty')] +
           [('enter', 0), ('enter', 2), ('enter', 3), ('enter', 5), ('exit',), ('exit_exc',), ('exit_base',)])
# a manager object built at one moment and entered at a later one (at most one such object at a time)
DEFERRED = ([('seterr', 'empty', 'ignore'), ('seterr', 'empty', 'raise'), ('seterr', 'obsdup', 'call'),
             ('seterr_all', 'warn'), ('trigger', 'empty')] +
            [('create', 0), ('create', 1), ('create', 3), ('enter_pending',), ('enter', 2)] +
            [('exit',), ('exit_exc',), ('exit_base',)])


class Boom(RuntimeError):
    pass


class BaseBoom(BaseException):
    """leaving a block the way KeyboardInterrupt / SystemExit / GeneratorExit do"""


# ----------------------------------------------------------------------------- model
class Model:
    def __init__(self, defaults):
        self.cur = dict(defaults)
        self.stack = []            # saved profiles of the open scoped overrides
        self.cbs = {}
        self.triggered = set()     # kinds whose reaction has fired at least once (reads may leave hidden state)
        self.pending = None        # index into ENTER_ARGS of the manager built but not yet entered

    def apply_update(self, upd):
        """returns False when the update must be refused (profile untouched)"""
        if 'all' in upd:
            if upd['all'] not in REACTIONS:
                return False
            for k in self.cur:
                self.cur[k] = upd['all']
            return True
        for k, v in upd.items():
            if k not in self.cur or v not in REACTIONS:
                return False
        self.cur.update(upd)
        return True


def bad_kwargs(variant):
    if variant == 'reaction':
        return [('empty', 'explode')]
    if variant == 'kind':
        return [('nokind', 'raise')]
    if variant == 'all_reaction':
        return [('all', 'explode')]
    if variant == 'valid_then_invalid':
        return [('empty', 'raise'), ('nokind', 'raise')]
    return [('obsdup', 'explode'), ('empty', 'warn')]


class World:
    """the real biom.err state plus the live context managers"""

    def __init__(self):
        import biom.err as err
        self.err = err
        self.managers = []
        self.pending = None


DEFAULTS = None
PROBE_TABLES = {}


def setup():
    global DEFAULTS
    import biom.err as err
    from biom import Table
    if DEFAULTS is None:
        DEFAULTS = dict(err.geterr())
    err.seterr(**DEFAULTS)
    if not PROBE_TABLES:
        old = err.seterr(all='ignore')
        try:
            PROBE_TABLES['empty'] = Table(np.zeros((0, 0)), [], [])
            PROBE_TABLES['obsdup'] = Table(np.array([[1.0], [2.0]]), ['a', 'a'], ['s'])
            PROBE_TABLES['fine'] = Table(np.array([[1.0], [2.0]]), ['a', 'b'], ['s'])
        finally:
            err.seterr(**DEFAULTS)


def reset_world():
    import biom.err as err
    err.seterr(**DEFAULTS)
    for k in KINDS:
        try:
            err.seterrcall(k, _noop)
        except Exception:
            pass
    return World(), Model(DEFAULTS)


def _noop(t):
    return None


def step(op, w, m):
    """apply op to the real world and to the model; returns list of (sig, detail); raises Skip if disabled"""
    err = w.err
    out = []
    kind = op[0]
    if kind == 'seterr':
        ret = err.seterr(**{op[1]: op[2]})
        m.apply_update({op[1]: op[2]})
    elif kind == 'seterr_all':
        err.seterr(all=op[1])
        m.apply_update({'all': op[1]})
    elif kind == 'bad':
        kw = dict(bad_kwargs(op[1]))
        try:
            err.seterr(**kw)
            out.append(('unknown-refusal:accepted', 'seterr(%r) did not raise' % (kw,)))
        except KeyError:
            pass
        except Exception as e:
            out.append(('unknown-refusal:wrong-exception', 'seterr(%r) raised %s' % (kw, type(e).__name__)))
    elif kind == 'seterrcall':
        f = CBS[op[2]]
        try:
            err.seterrcall(op[1], f)
            if op[1] not in KINDS:
                out.append(('unknown-refusal:accepted', 'seterrcall(%r) did not raise' % op[1]))
            else:
                m.cbs[op[1]] = op[2]
        except KeyError:
            if op[1] in KINDS:
                out.append(('seterrcall:raised', 'seterrcall(%r) raised KeyError' % op[1]))
    elif kind == 'create':
        if w.pending is not None:
            raise Skip()
        w.pending = err.errstate(**ENTER_ARGS[op[1]])
        m.pending = op[1]
    elif kind in ('enter', 'enter_pending'):
        if len(w.managers) >= MAXNEST or (kind == 'enter_pending' and w.pending is None):
            raise Skip()
        if kind == 'enter':
            kw = ENTER_ARGS[op[1]]
            cm = err.errstate(**kw)
        else:
            kw = ENTER_ARGS[m.pending]
            cm = w.pending
            w.pending = m.pending = None
        saved = dict(m.cur)
        valid = Model(m.cur).apply_update(kw)
        try:
            cm.__enter__()
            if not valid:
                out.append(('unknown-refusal:accepted', 'errstate(%r) entered' % (kw,)))
            w.managers.append(cm)
            m.stack.append(saved)
            m.apply_update(kw)
        except KeyError:
            if valid:
                out.append(('errstate:enter-raised', 'errstate(%r) raised KeyError' % (kw,)))
    elif kind == 'trigger':
        out += probe(w, m, kinds=(op[1],))
        m.triggered.add(op[1])
    elif kind in ('exit', 'exit_exc', 'exit_base'):
        if not w.managers:
            raise Skip()
        cm = w.managers.pop()
        m.cur = m.stack.pop()
        if kind == 'exit':
            r = cm.__exit__(None, None, None)
        else:
            cls = Boom if kind == 'exit_exc' else BaseBoom
            e = cls('leaving the block by exception')
            try:
                r = cm.__exit__(cls, e, None)
                if r:
                    out.append(('errstate:exception-swallowed', 'errstate swallowed the exception raised in its block'))
            except cls:
                pass
    else:
        raise KeyError(op)
    # ---- compare with the model
    got = dict(err.geterr())
    if got != m.cur:
        diffk = sorted(k for k in got if got[k] != m.cur.get(k))
        what = {'bad': 'refused-update-changed-profile', 'exit': 'not-restored-after-normal-exit',
                'exit_exc': 'not-restored-after-exception', 'exit_base': 'not-restored-after-exception',
                'enter': 'override-not-in-force', 'enter_pending': 'override-not-in-force',
                'create': 'building-a-manager-changed-profile',
                'seterrcall': 'seterrcall-changed-profile'}.get(kind, 'seterr-not-applied')
        out.append(('profile:' + what, 'after %r geterr() differs from the scoped-stack model in %r: got %r, '
                    'model %r' % (op, diffk, {k: got[k] for k in diffk}, {k: m.cur[k] for k in diffk})))
    for k, name in m.cbs.items():
        if err.geterrcall(k) is not CBS[name]:
            out.append(('profile:callback', 'geterrcall(%r) is not the registered function' % k))
    return out


class Skip(Exception):
    pass


def key(w, m):
    err = w.err
    saved = [_cm_state(cm) for cm in w.managers]
    pend = (m.pending, _cm_state(w.pending)) if w.pending is not None else None
    return h64((tuple(sorted(err.geterr().items())), tuple(saved), tuple(sorted(m.cbs.items())),
                tuple(sorted(m.triggered)), pend))


def _cm_state(cm):
    """whatever a live manager remembers: the locals of a generator-based one, the fields of a class-based one"""
    from ..core import jsonable
    g = getattr(cm, 'gen', None)
    if g is not None:
        fr = getattr(g, 'gi_frame', None)
        d = dict(fr.f_locals) if fr is not None else None
    else:
        d = dict(getattr(cm, '__dict__', {}))
    if d is None:
        return None
    return repr(sorted((k, repr(jsonable(v))) for k, v in d.items() if not callable(v)))


def probe(w, m, kinds=('empty', 'obsdup')):
    """fire one probe per kind of the search alphabet and compare with the model's prediction"""
    err = w.err
    out = []
    for kind, msg in (('empty', err.EMPTY), ('obsdup', err.OBSDUP)):
        if kind not in kinds:
            continue
        want = m.cur[kind]
        if want == 'call' and kind not in m.cbs:
            want = 'ignore'      # no callback registered: nothing observable
        t = PROBE_TABLES[kind]
        del CALLS[:]
        buf = io.StringIO()
        raised = None
        with warnings.catch_warnings(record=True) as ws:
            warnings.simplefilter('always')
            with mock.patch.object(err, 'stdout', buf):
                try:
                    err.errcheck(t, kind)
                except Exception as e:
                    raised = e
        obs = observed_reaction(raised, ws, buf.getvalue(), CALLS, msg, t, m.cbs.get(kind))
        if obs != want:
            out.append(('reaction:probe:' + kind, 'profile says %r for %s but errcheck reacted with %r'
                        % (want, kind, obs)))
    return out


def observed_reaction(raised, ws, printed, calls, msg, table, cbname):
    from biom.exception import TableException
    sig = []
    if raised is not None:
        sig.append('raise' if isinstance(raised, TableException) and str(raised) == msg else
                   'raise?%s' % type(raised).__name__)
    if ws:
        sig.append('warn' if len(ws) == 1 and str(ws[0].message) == msg else 'warn?%d' % len(ws))
    if printed:
        sig.append('print' if printed == msg + '\n' else 'print?%r' % printed)
    if calls:
        ok = len(calls) == 1 and calls[0][1] is table and (cbname is None or calls[0][0] == cbname)
        sig.append('call' if ok else 'call?%r' % [c[0] for c in calls])
    if not sig:
        return 'ignore'          # (a 'call' reaction without a registered callback is indistinguishable)
    return '+'.join(sig)


_ALPHABET = FULL_ALPHABET


def build(hist):
    w, m = reset_world()
    for op in hist:
        step(op, w, m)
    return w, m


def unwind(w):
    w.pending = None
    while w.managers:
        try:
            w.managers.pop().__exit__(None, None, None)
        except Exception:
            pass


_SEEN = set()


def work(chunk, acc):
    out = []
    local = set()
    for hist in chunk:
        hist = tuple(hist)
        for op in _ALPHABET:
            w, m = build(hist)
            k0 = key(w, m)
            case = {'history': [list(o) for o in hist + (op,)]}
            try:
                found = step(op, w, m)
            except Skip:
                unwind(w)
                continue
            acc.trans += 1
            acc.evals += 1
            acc.count('op:' + op[0])
            for sig, detail in found:
                acc.violation(sig, detail, case)
            k1 = key(w, m)
            if k1 != k0:
                acc.nontrivial.add(h64((k0, op)))
            if not found and k1 not in _SEEN and k1 not in local:
                local.add(k1)
                acc.states.add(k1)
                acc.outcomes.add(h64(tuple(sorted(w.err.geterr().items()))))
                for sig, detail in probe(w, m):
                    acc.violation(sig, detail, case)
                acc.evals += 2
                out.append((k1, hist + (op,)))
            unwind(w)
        acc.traces += 1
    if chunk:
        acc.sample({'history': [list(o) for o in chunk[0]], 'then': 'every op of the alphabet'}, cap=3)
    reset_world()
    return out


def search(run, alphabet, depth, label):
    global _ALPHABET
    _ALPHABET = alphabet
    _SEEN.clear()
    w, m = reset_world()
    _SEEN.add(key(w, m))
    run.acc.states.add(key(w, m))
    frontier = [()]
    done, fix = 0, False
    levels = []
    for d in range(1, depth + 1):
        if not frontier:
            fix = True
            break
        rets = run.pmap(work, frontier, collect=True)
        nxt = []
        for r in rets:
            for k, h in (r or []):
                if k not in _SEEN:
                    _SEEN.add(k)
                    nxt.append(h)
        levels.append({'depth': d, 'frontier_in': len(frontier), 'new_states': len(nxt)})
        frontier = nxt
        done = d
    else:
        fix = not frontier
    run.extra['search:' + label] = {'depth_completed': done, 'fixpoint': fix, 'levels': levels,
                                    'alphabet_size': len(alphabet), 'states': len(_SEEN)}
    return fix


# ----------------------------------------------------------------------------- part 2
def trigger(kind, site):
    """(thunk performing the call, offending-table predicate) for an input triggering exactly `kind`"""
    from biom import Table
    D = np.array([[1.0, 2.0], [3.0, 4.0]])
    if site == 'constructor':
        if kind == 'empty':
            return lambda: Table(np.zeros((0, 0)), [], [])
        if kind == 'obssize':
            return lambda: Table(D, ['a', 'b', 'a'], ['x', 'y'])
        if kind == 'sampsize':
            return lambda: Table(D, ['a', 'b'], ['x', 'y', 'x'])
        if kind == 'obsdup':
            return lambda: Table(D, ['a', 'a'], ['x', 'y'])
        if kind == 'sampdup':
            return lambda: Table(D, ['a', 'b'], ['x', 'x'])
        if kind == 'obsmdsize':
            return lambda: Table(D, ['a', 'b'], ['x', 'y'], [{'k': 1}], None)
        if kind == 'obsmdsize-empty':
            return lambda: Table(D, ['a', 'b'], ['x', 'y'], [], None)
        if kind == 'sampmdsize-empty':
            return lambda: Table(D, ['a', 'b'], ['x', 'y'], None, ())
        if kind == 'sampmdsize':
            return lambda: Table(D, ['a', 'b'], ['x', 'y'], None, [{'k': 1}, {'k': 2}, {'k': 3}])
    base = (lambda: Table(D.copy(), ['a', 'b'], ['x', 'y']))
    if site == 'filter_copy' and kind == 'empty':
        return lambda: base().filter([], axis='sample', inplace=False)
    if site == 'filter_inplace' and kind == 'empty':
        return lambda: base().filter(lambda v, i, md: False, axis='observation', inplace=True)
    if site == 'update_ids':
        if kind == 'obsdup':
            return lambda: base().update_ids({'a': 'z', 'b': 'z'}, axis='observation', inplace=False)
        if kind == 'sampdup':
            return lambda: base().update_ids({'x': 'z', 'y': 'z'}, axis='sample', inplace=False)
    if site == 'copy':
        # the offending table exists already (built while everything was tolerated); copying it constructs a table
        build = trigger(kind, 'constructor')
        if build is None:
            return None

        def f():
            import biom.err as err
            old = err.geterr()
            err.seterr(all='ignore')
            try:
                offending = build()
            finally:
                err.seterr(**old)
            return offending.copy()
        return f
    if site == 'collapse' and kind == 'empty':
        def f():
            t = base()
            import biom.err as err
            old = err.geterr()
            t2 = None
            # an empty receiver, built while its construction is allowed
            err.seterr(empty='ignore')
            try:
                t2 = t.filter([], axis='sample', inplace=False)
            finally:
                err.seterr(**old)
            return t2.collapse(lambda i, md: 'g', norm=False, axis='observation')
        return f
    return None


def nontrigger(site):
    from biom import Table
    D = np.array([[1.0, 2.0], [3.0, 4.0]])
    base = (lambda: Table(D.copy(), ['a', 'b'], ['x', 'y'], [{'k': 1}, {'k': 2}], None))
    return {
        'constructor': base,
        'filter_copy': lambda: base().filter(['x'], axis='sample', inplace=False),
        'filter_inplace': lambda: base().filter(lambda v, i, md: True, axis='observation', inplace=True),
        'update_ids': lambda: base().update_ids({'a': 'z'}, axis='observation', strict=False, inplace=False),
        'collapse': lambda: base().collapse(lambda i, md: 'g', norm=False, axis='observation'),
        'copy': lambda: base().copy(),
    }[site]


SITES = ['constructor', 'filter_copy', 'filter_inplace', 'update_ids', 'collapse', 'copy']


def reactions(chunk, acc):
    import biom.err as err
    from biom.exception import TableException
    msgs = dict(zip(KINDS, [err.EMPTY, err.OBSSIZE, err.SAMPSIZE, err.OBSDUP, err.SAMPDUP, err.OBSMDSIZE,
                            err.SAMPMDSIZE]))
    for kind, reaction, site, trig in chunk:
        reset_world()
        variant = kind
        kind = kind.split('-')[0]
        thunk = trigger(variant, site) if trig else nontrigger(site)
        if thunk is None:
            continue
        case = {'kind': variant, 'reaction': reaction, 'site': site, 'triggering': trig}
        err.seterrcall(kind, cb_one)
        err.seterr(**{kind: reaction})
        del CALLS[:]
        buf = io.StringIO()
        raised, result = None, None
        with warnings.catch_warnings(record=True) as ws:
            warnings.simplefilter('always')
            with mock.patch.object(err, 'stdout', buf):
                try:
                    result = thunk()
                except Exception as e:
                    raised = e
        ws = [w_ for w_ in ws if str(w_.message) in msgs.values()]
        acc.trans += 1
        acc.evals += 1
        calls = list(CALLS)
        obs = observed_reaction(raised, ws, buf.getvalue(), [(c[0], None) for c in calls], msgs[kind], None, 'cb_one')
        want = reaction if trig else 'ignore'
        if trig and site == 'collapse' and reaction != 'raise':
            # no input triggers exactly 'empty' at this call site: an empty receiver also makes the result's
            # shape disagree with its ids, which the constructor then refuses.  Only the reaction to 'empty'
            # itself is judged here.
            # The result table is empty as well, so the reaction may legitimately fire twice.
            parts = [p.split('?')[0] for p in obs.split('+') if p != 'raise?TableException']
            obs = '+'.join(sorted(set(parts))) or 'ignore'
        if obs != want:
            acc.violation('reaction:%s:%s' % (site, 'triggering' if trig else 'non-triggering'),
                          'kind %s under %r at %s (%s input): observed %r (raised=%r)'
                          % (kind, reaction, site, 'triggering' if trig else 'clean', obs, raised), case)
        elif trig and reaction == 'call' and site == 'constructor' and \
                not (len(calls) == 1 and type(calls[0][1]).__name__ == 'Table'):
            acc.violation('reaction:callback-argument', 'callback was not invoked once with the offending table', case)
        else:
            acc.count('clause:reaction:' + reaction)
            acc.count('site:' + site)
            acc.nontrivial.add(h64(repr(case)))
            acc.states.add(h64(('reaction', kind, reaction, site, trig)))
        if raised is None and reaction != 'raise' and result is None and site != 'filter_inplace':
            pass
        acc.traces += 1
    reset_world()


# ----------------------------------------------------------------------------- inputs that trigger two kinds
def pair_input(k1, k2):
    from biom import Table
    D = np.array([[1.0, 2.0], [3.0, 4.0]])
    return {
        ('obsdup', 'sampdup'): lambda: Table(D, ['a', 'a'], ['x', 'x']),
        ('obsdup', 'obsmdsize'): lambda: Table(D, ['a', 'a'], ['x', 'y'], [{'k': 1}], None),
        ('obsdup', 'obssize'): lambda: Table(D, ['a'], ['x', 'y']),            # too few ids
        ('sampdup', 'sampmdsize'): lambda: Table(D, ['a', 'b'], ['x', 'x'], None, [{'k': 1}]),
        ('sampdup', 'sampsize'): lambda: Table(D, ['a', 'b'], ['x']),
        ('obsmdsize', 'sampmdsize'): lambda: Table(D, ['a', 'b'], ['x', 'y'], [{'k': 1}], [{'k': 1}, {'k': 2}, {'k': 3}]),
    }[(k1, k2)]


PAIRS = [('obsdup', 'sampdup'), ('obsdup', 'obsmdsize'), ('obsdup', 'obssize'), ('sampdup', 'sampmdsize'),
         ('sampdup', 'sampsize'), ('obsmdsize', 'sampmdsize')]


def reactions2(chunk, acc):
    """an input that triggers two kinds: each kind's own reaction is what happens (`want` below is what the
    library does today - kind order, up to the first 'raise' - and is only used in the message)"""
    import biom.err as err
    from biom.exception import TableException
    msgs = dict(zip(KINDS, [err.EMPTY, err.OBSSIZE, err.SAMPSIZE, err.OBSDUP, err.SAMPDUP, err.OBSMDSIZE,
                            err.SAMPMDSIZE]))
    for k1, k2, r1, r2 in chunk:
        reset_world()
        case = {'kinds': [k1, k2], 'reactions': [r1, r2]}
        err.seterr(all='ignore')
        err.seterrcall(k1, cb_one)
        err.seterrcall(k2, cb_two)
        err.seterr(**{k1: r1, k2: r2})
        del CALLS[:]
        buf = io.StringIO()
        raised = None
        with warnings.catch_warnings(record=True) as ws:
            warnings.simplefilter('always')
            with mock.patch.object(err, 'stdout', buf):
                try:
                    pair_input(k1, k2)()
                except Exception as e:
                    raised = e
        got = {'raised': None if raised is None else (type(raised).__name__, str(raised)),
               'warned': [str(w_.message) for w_ in ws if str(w_.message) in msgs.values()],
               'printed': buf.getvalue(), 'called': [c[0] for c in CALLS]}
        want = {'raised': None, 'warned': [], 'printed': '', 'called': []}
        for k, r, cb in ((k1, r1, 'cb_one'), (k2, r2, 'cb_two')):
            if r == 'raise':
                want['raised'] = ('TableException', msgs[k])
                break
            if r == 'warn':
                want['warned'].append(msgs[k])
            elif r == 'print':
                want['printed'] += msgs[k] + '\n'
            elif r == 'call':
                want['called'].append(cb)
        acc.trans += 1
        acc.evals += 1
        # the order in which the two kinds are looked at is not part of the property: without a 'raise' both
        # reactions must have happened (in any order); with one, the exception of a kind set to 'raise' must
        # arrive, and whatever else was observed must be a reaction that was configured
        raising = [msgs[k] for k, r in ((k1, r1), (k2, r2)) if r == 'raise']
        full = {'warned': sorted(msgs[k] for k, r in ((k1, r1), (k2, r2)) if r == 'warn'),
                'printed': sorted(msgs[k] + '\n' for k, r in ((k1, r1), (k2, r2)) if r == 'print'),
                'called': sorted(cb for (k, r), cb in (((k1, r1), 'cb_one'), ((k2, r2), 'cb_two')) if r == 'call')}
        seen = {'warned': sorted(got['warned']), 'printed': sorted(got['printed'].splitlines(True)),
                'called': sorted(got['called'])}
        if raising:
            ok = got['raised'] is not None and got['raised'][0] == 'TableException' and got['raised'][1] in raising \
                and all(set(seen[f]) <= set(full[f]) and len(seen[f]) <= len(full[f]) for f in full)
        else:
            ok = got['raised'] is None and seen == full
        if not ok:
            acc.violation('reaction:two-kinds', 'input triggering %s and %s under %s=%r, %s=%r (all others ignore): '
                          'observed %r, expected %r' % (k1, k2, k1, r1, k2, r2, got, want), case)
        else:
            acc.count('clause:reaction:two-kinds')
            acc.nontrivial.add(h64(repr(case)))
            acc.states.add(h64(('reaction2', k1, k2, r1, r2)))
        acc.traces += 1
    reset_world()


# ----------------------------------------------------------------------------- the library's own use of the profile
PROFILES = [{}, {'all': 'raise'}, {'empty': 'warn'}, {'empty': 'raise', 'obsdup': 'ignore'}, {'all': 'print'}]


def library_calls():
    """(name, thunk) of library calls - succeeding, failing and suspended ones: whatever the library does with the
    profile for its own purposes, the caller's profile is the same before, in between and afterwards"""
    from biom import Table
    D = np.array([[1.0, 0.0, 2.0], [0.0, 0.0, 0.0], [3.0, 4.0, 0.0]])

    def T():
        return Table(D.copy(), ['a', 'b', 'c'], ['x', 'y', 'z'], [{'k': 1}, {'k': 2}, {'k': 1}], None)
    calls = [
        ('subsample', lambda: T().subsample(1)),
        ('subsample-bad-axis', lambda: T().subsample(1, axis='samples')),
        ('subsample-huge-n', lambda: T().subsample(10 ** 30)),
        ('subsample-by-id', lambda: T().subsample(2, by_id=True)),
        ('partition-list', lambda: list(T().partition(lambda i, md: i))),
        ('partition-remove-empty', lambda: list(T().partition(lambda i, md: 'g', remove_empty=True))),
        ('collapse', lambda: T().collapse(lambda i, md: 'g', norm=False)),
        ('collapse-bad-function', lambda: T().collapse(lambda i, md: 1 / 0, norm=False)),
        ('sort-unknown-id', lambda: T().sort_order(['x', 'nope', 'z'])),
        ('filter-unknown-id', lambda: T().filter(['nope'], inplace=False)),
        ('remove-empty', lambda: T().remove_empty(inplace=False)),
        ('update-ids-missing', lambda: T().update_ids({'x': 'q'}, strict=True, inplace=False)),
        ('merge', lambda: T().merge(T())),
        ('concat-overlap', lambda: T().concat([T()])),
        ('norm', lambda: T().norm(inplace=False)),
        ('pa', lambda: T().pa(inplace=False)),
        ('transform-bad-function', lambda: T().transform(lambda v, i, md: 1 / 0, inplace=False)),
        ('to-json', lambda: T().to_json('verif')),
        ('head', lambda: T().head(1, 1)),
    ]
    return calls, T


def scoping(chunk, acc):
    import biom.err as err
    for pi, name in chunk:
        reset_world()
        prof = PROFILES[pi]
        if prof:
            err.seterr(**prof)
        before = dict(err.geterr())
        calls, T = library_calls()
        case = {'profile': pi, 'call': name}
        acc.trans += 1
        acc.evals += 1
        if name == 'partition-lazy':
            # a generator that is suspended between its parts: the caller's profile is in force in between, and a
            # change the caller makes in between is not undone when the generator ends
            seen = []
            with warnings.catch_warnings():
                warnings.simplefilter('ignore')
                buf = io.StringIO()
                with mock.patch.object(err, 'stdout', buf):
                    try:
                        g1 = T().partition(lambda i, md: i)
                        g2 = T().partition(lambda i, md: i, axis='observation', remove_empty=True)
                        next(g1)
                        seen.append(dict(err.geterr()))
                        next(g2)
                        seen.append(dict(err.geterr()))
                        err.seterr(sampdup='print')
                        before = dict(err.geterr())
                        for _ in g1:
                            seen.append(dict(err.geterr()))
                        for _ in g2:
                            pass
                    except Exception as e:
                        if not isinstance(e, Exception):
                            raise
            seen.append(dict(err.geterr()))
            wrong = [k for sn in seen[:2] for k in sn if sn[k] != dict(before, sampdup=sn['sampdup'])[k]] + \
                [k for sn in seen[2:] for k in sn if sn[k] != before[k]]
        else:
            thunk = dict(calls)[name]
            with warnings.catch_warnings():
                warnings.simplefilter('ignore')
                buf = io.StringIO()
                with mock.patch.object(err, 'stdout', buf):
                    try:
                        thunk()
                        acc.count('scoping:call-succeeded')
                    except Exception:
                        acc.count('scoping:call-raised')
            after = dict(err.geterr())
            wrong = [k for k in after if after[k] != before[k]]
        if wrong:
            acc.violation('profile:changed-by-library-call', 'the profile differs in %r after / during the library call '
                          '%s under profile %r' % (sorted(set(wrong)), name, prof), case)
        else:
            acc.count('clause:profile-unchanged-by-library-call')
            acc.states.add(h64(('scoping', pi, name)))
            acc.nontrivial.add(h64(('scoping', pi, name)))
        acc.traces += 1
    reset_world()


# ----------------------------------------------------------------------------- errcheck site with probe tables
def run(run):
    setup()
    depth = 5 if run.quick else 7
    search(run, FULL_ALPHABET, depth, 'full-alphabet-d%d' % depth)
    fix = search(run, REDUCED, 40, 'reduced-alphabet-fixpoint')
    dd = 6 if run.quick else 9
    search(run, DEFERRED, dd, 'deferred-entry-d%d' % dd)
    if not fix:
        run.cap('reduced alphabet did not reach a fixpoint within depth 40')
    cases = [(k, r, s, trig) for k in KINDS for r in REACTIONS for s in SITES for trig in (True, False)]
    cases += [(k, r, 'constructor', True) for k in ('obsmdsize-empty', 'sampmdsize-empty') for r in REACTIONS]
    run.pmap(reactions, cases, nchunks=16)
    run.pmap(reactions2, [(k1, k2, r1, r2) for k1, k2 in PAIRS for r1 in REACTIONS for r2 in REACTIONS], nchunks=16)
    names = [n for n, _ in library_calls()[0]] + ['partition-lazy']
    run.pmap(scoping, [(pi, n) for pi in range(len(PROFILES)) for n in names], nchunks=16)
    run.extra['alphabet'] = [list(o) for o in FULL_ALPHABET]
    run.extra['enter_args'] = ENTER_ARGS
    run.extra['max_nesting'] = MAXNEST
    vacuity(run, ['op:' + o for o in ('seterr', 'seterr_all', 'bad', 'seterrcall', 'trigger', 'enter', 'exit', 'exit_exc',
                                 'exit_base', 'create', 'enter_pending')] +
            ['clause:reaction:' + r for r in REACTIONS] + ['site:' + s for s in SITES] + ['clause:reaction:two-kinds', 'clause:profile-unchanged-by-library-call',
                                         'scoping:call-raised', 'scoping:call-succeeded'])
    reset_world()
    run.assumptions += ['errstate context managers are driven by hand (__enter__/__exit__), leaving by exception is '
                        'cm.__exit__(Boom, exc, None)', "the 'print' reaction is observed through biom.err.stdout "
                        '(patched harness-side)']


def replay(case):
    setup()
    found = []
    if 'history' in case:
        w, m = reset_world()
        hist = [tuple(o) for o in case['history']]
        for i, op in enumerate(hist):
            try:
                r = step(op, w, m)
            except Skip:
                break
            if i == len(hist) - 1:
                found += r
                if not r:
                    found += probe(w, m)
        unwind(w)
        reset_world()
        return found
    from ..core import Acc
    acc = Acc()
    if 'call' in case:
        scoping([(case['profile'], case['call'])], acc)
    elif 'kinds' in case:
        reactions2([tuple(case['kinds']) + tuple(case['reactions'])], acc)
    else:
        reactions([(case['kind'], case['reaction'], case['site'], case['triggering'])], acc)
    for sig, (n, ex) in acc.viol.items():
        found += [(sig, d) for d, _ in ex]
    return found
