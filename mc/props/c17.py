"""C17 – all accepted construction inputs agree; malformed input is always rejected.

Engine E2, four exhaustive products, all executed on the real constructor / importers:

M    every matrix over {0, 1, 2.5} of every shape of the tier, encoded in every accepted
     input form (FORMS below); every form must construct, hold exactly the described values
     (shape, ids, `matrix_data.toarray()`, `get_value_by_ids` of every cell against a plain
     list model) and all forms must be pairwise `==`.
X    every sparsity mask of every shape (quick tier: five named masks for the 6-cell shapes)
     x every input form x every malformation (duplicate id
     at every pair of positions of either axis, ids one too few / one too many per axis,
     metadata one too short / one too long, a non-mapping at every metadata position): each
     must raise `biom.exception.TableException` and yield no object.  DESIGN section 5 scope
     note: the id-count clause is demanded for shape-carrying forms only; for coordinate forms
     (triples, coordinate dict) the check demands only that no table is produced when a
     listed coordinate falls outside the id counts.
ADJ  every multiset of <= 4 (quick tier: <= 3) adjacency records over 2 observation x 2 sample ids x values
     {1, 2.5, '1e3'} x {header line, none} x {list, list with terminators, string, string with
     final newline, StringIO, real file handle} x {sorted, reversed record order}.
UC   every sequence of <= 4 uc records over {S seed A, S seed B, 4 H (2 samples x 2 seeds), L,
     N, comment, blank} through `parse_uc` (list, handle), `_from_uc` (no map, complete fasta
     map, incomplete fasta map) and - for short sequences - the `biom from-uc` click callback.

Pinned semantics (DESIGN section 14): adjacency has no comment syntax; the uc sample id is the
text before the LAST underscore of the query label; L records create an observation without
counts.  Id *order* of the importers is not part of the statement: id sets and the cell of
every (observation, sample) pair are compared.
"""
import io
import itertools
import json
import os

import numpy as np

from .. import domain as D
from .. import pipeline as P
from ..core import h64, vacuity

LEVEL = 'model_checking'
RULE = ('M: every matrix over {0,1,2.5} of every tier shape x every applicable input form, all forms '
        'verified against a dense list model and pairwise ==; X: every mask x every form x every '
        'malformation; ADJ: every multiset of <=4 (quick: <=3) records x header x container x order; UC: every '
        'sequence of <=4 records x entry point.  A case is non-trivial when the matrix / record set '
        'has at least one non-zero cell (M, ADJ, UC) - every X case is non-trivial; distinct by case spec')

VALS = [0.0, 1.0, 2.5]
COORD_FORMS = ('triples', 'triples_zeros', 'triples_rev', 'coorddict', 'coorddict_zeros')


# ------------------------------------------------------------------------- input forms
def shuffled(m):
    """reverse the index order inside every major-axis vector of a csr/csc matrix"""
    m = m.copy()
    for r in range(len(m.indptr) - 1):
        a, b = m.indptr[r], m.indptr[r + 1]
        m.indices[a:b] = m.indices[a:b][::-1].copy()
        m.data[a:b] = m.data[a:b][::-1].copy()
    m.has_sorted_indices = False
    return m


def form_builders():
    """name -> f(A) -> (data, kwargs) or None when the form cannot express A.  A is a float
    ndarray (N, M) with N, M >= 1."""
    import scipy.sparse as sp

    def integral(A):
        return bool(np.all((A == 0) | (A == 1)))

    def nz(A):
        return [(i, j) for i in range(A.shape[0]) for j in range(A.shape[1]) if A[i, j] != 0]

    def cells(A):
        return [(i, j) for i in range(A.shape[0]) for j in range(A.shape[1])]

    F = {}
    F['dense_f64'] = lambda A: (A.copy(), {})
    F['dense_f32'] = lambda A: (A.astype(np.float32), {})
    F['dense_fortran'] = lambda A: (np.asfortranarray(A), {})
    F['dense_int64'] = lambda A: (A.astype(np.int64), {}) if integral(A) else None
    F['dense_int32'] = lambda A: (A.astype(np.int32), {}) if integral(A) else None
    F['dense_uint8'] = lambda A: (A.astype(np.uint8), {}) if integral(A) else None
    F['dense_bool'] = lambda A: (A.astype(bool), {}) if integral(A) else None
    F['dense_1d'] = lambda A: (A[0].copy(), {}) if A.shape[0] == 1 else None
    F['nested'] = lambda A: (A.tolist(), {'input_is_dense': True})
    F['nested_int'] = lambda A: ([[int(v) for v in r] for r in A], {'input_is_dense': True}) \
        if integral(A) else None
    F['triples'] = lambda A: ([[i, j, float(A[i, j])] for i, j in nz(A)], {})
    F['triples_zeros'] = lambda A: ([[i, j, float(A[i, j])] for i, j in cells(A)], {})
    F['triples_rev'] = lambda A: ([[i, j, float(A[i, j])] for i, j in nz(A)][::-1], {})
    F['coorddict'] = lambda A: ({(i, j): float(A[i, j]) for i, j in nz(A)}, {})
    F['coorddict_zeros'] = lambda A: ({(i, j): float(A[i, j]) for i, j in cells(A)}, {})
    F['rowarrays'] = lambda A: ([A[i].copy() for i in range(A.shape[0])], {})
    F['rowarrays_int'] = lambda A: ([A[i].astype(np.int64) for i in range(A.shape[0])], {}) \
        if integral(A) else None
    F['rowdicts_full'] = lambda A: ([{(0, j): float(A[i, j]) for j in range(A.shape[1])}
                                     for i in range(A.shape[0])], {})
    # zeros omitted: the row-dict form derives its column count from the largest key, so it
    # describes A only when the last column holds a non-zero value
    F['rowdicts_sparse'] = lambda A: ([{(0, j): float(A[i, j]) for j in range(A.shape[1]) if A[i, j] != 0}
                                       for i in range(A.shape[0])], {}) if np.any(A[:, -1] != 0) else None
    for fmt in ('csr', 'coo', 'lil'):
        F['sprows_' + fmt] = (lambda A, fmt=fmt: ([getattr(sp, fmt + '_matrix')(A[i:i + 1])
                                                    for i in range(A.shape[0])], {}))
    for fmt in ('csr', 'csc', 'coo', 'lil', 'dok', 'bsr'):
        F[fmt] = (lambda A, fmt=fmt: (getattr(sp, fmt + '_matrix')(A), {}))
    F['bsr_b11'] = lambda A: (sp.bsr_matrix(A, blocksize=(1, 1)), {})
    F['csr_shuffled'] = lambda A: (shuffled(sp.csr_matrix(A)), {})
    F['csc_shuffled'] = lambda A: (shuffled(sp.csc_matrix(A)), {})
    F['csr_int'] = lambda A: (sp.csr_matrix(A.astype(np.int64)), {}) if integral(A) else None
    # single precision held by the caller (0, 1, 2.5 are exact in it)
    for fmt in ('csr', 'csc', 'coo'):
        F[fmt + '_f32'] = (lambda A, fmt=fmt: (getattr(sp, fmt + '_matrix')(A.astype(np.float32)), {}))
    return F


FORMS = list(form_builders())
REF = 'dense_f64'


def family(form):
    """the dispatch branch of Table._to_sparse a form goes through (call site of a signature)"""
    return form.split('_')[0]


def oids(n):
    return ['o%d' % (i + 1) for i in range(n)]


def sids(n):
    return ['s%d' % (i + 1) for i in range(n)]


def matrix_of(shape, code):
    N, M = shape
    A = np.zeros((N, M))
    for k in range(N * M):
        A[k // M, k % M] = VALS[code % 3]
        code //= 3
    return A


# ------------------------------------------------------------------------- adjacency / uc menus
# ids whose natural order differs from their string order (o9 < o10, 'o10' < 'o9'); incl. zero-valued records
ADJ_RECS = [(o, s, v) for o in ('o10', 'o9') for s in ('s2', 's10') for v in ('1', '2.5', '1e3', '0')]
ADJ_HEADER = '#OTU ID\tSampleID\tvalue'
ADJ_CONTAINERS = ['list', 'list_nl', 'string', 'string_nl', 'stringio', 'filehandle']


def uc_rec(t, q, target):
    return '%s\t0\t100\t98.0\t+\t0\t0\t*\t%s\t%s' % (t, q, target)


UC_MENU = [
    ('S', 'sA_1', '*'), ('S', 's_B_7', '*'),
    ('H', 'sA_2 some description', 'sA_1'), ('H', 's_B_3', 'sA_1'),
    ('H', 'sA_4', 's_B_7'), ('H', 's_B_5', 's_B_7 seed description'),
    ('L', 'lib_9', '*'), ('N', 'sA_8', '*'), ('#', None, None), ('', None, None)]
UC_KIND = ['S', 'S', 'H', 'H', 'H', 'H', 'L', 'N', 'comment', 'blank']
FASTA_COMPLETE = ['>OTU_A sA_1\n', 'ACGT\n', '>OTU_B s_B_7 more\n', 'GGCC\n', '>OTU_L lib_9\n', 'TTAA\n']
FASTA_INCOMPLETE = ['>OTU_A sA_1\n', 'ACGT\n']
MAP_COMPLETE = {'sA_1': 'OTU_A', 's_B_7': 'OTU_B', 'lib_9': 'OTU_L'}
MAP_INCOMPLETE = {'sA_1': 'OTU_A'}


def uc_line(k):
    t, q, tg = UC_MENU[k]
    if t == '#':
        return '# uclust --input x.fna --id 0.97'
    if t == '':
        return ''
    return uc_rec(t, q, tg)


def uc_model(seq):
    """independent reading of the records: (observation ids, sample ids, {(obs, sample): count})"""
    obs, samp, cnt = [], [], {}
    for k in seq:
        t, q, tg = UC_MENU[k]
        if t not in ('S', 'H', 'L'):
            continue
        q = q.split()[0]
        tg = tg.split()[0]
        o = q if tg == '*' else tg
        if o not in obs:
            obs.append(o)
        if t in ('S', 'H'):
            s = q.rsplit('_', 1)[0]           # text before the LAST underscore
            if s not in samp:
                samp.append(s)
            cnt[(o, s)] = cnt.get((o, s), 0) + 1
    return obs, samp, cnt


# ------------------------------------------------------------------------- malformations
NONMAPPINGS = [('truthy', 'x'), ('truthy', 7), ('truthy', ['k']), ('truthy', ('k', 'v')), ('truthy', 3.5),
               ('falsy', ''), ('falsy', 0), ('falsy', [])]


def md_background(bg, n, tag):
    if bg == 'dicts':
        return [{'k': '%s%d' % (tag, i)} for i in range(n)]
    if bg == 'nulls':
        return [None] * n
    if bg == 'empties':
        return [{} for _ in range(n)]
    raise KeyError(bg)


def malformations(N, M):
    """-> list of (kind, sig_extra, detail, oids, sids, omd, smd, outside) where `outside(i, j)`
    tells whether coordinate (i, j) falls outside the id counts (coordinate forms)."""
    out = []
    O, S = oids(N), sids(M)
    inside = (lambda i, j: False)
    for ax, ids, n in (('obs', O, N), ('samp', S, M)):
        for p, q in itertools.combinations(range(n), 2):
            ids2 = list(ids)
            ids2[q] = ids2[p]
            out.append(('dup-' + ax, '', 'positions %d,%d' % (p, q),
                        ids2 if ax == 'obs' else O, ids2 if ax == 'samp' else S, None, None, inside))
        few = ids[:-1]
        out.append(('ids-few-' + ax, '', 'ids %r' % few, few if ax == 'obs' else O, few if ax == 'samp' else S,
                    None, None,
                    (lambda i, j, n=n: i >= n - 1) if ax == 'obs' else (lambda i, j, n=n: j >= n - 1)))
        many = ids + ['extra']
        out.append(('ids-many-' + ax, '', 'ids %r' % many, many if ax == 'obs' else O,
                    many if ax == 'samp' else S, None, None, inside))
        for bg in ('dicts', 'nulls', 'empties'):
            for kind, k in (('md-short-', n - 1), ('md-long-', n + 1)):
                md = md_background(bg, k, ax)
                out.append((kind + ax, ':void' if bg != 'dicts' else ':mappings', 'metadata %r' % (md,), O, S,
                            md if ax == 'obs' else None, md if ax == 'samp' else None, inside))
        for bg in ('dicts', 'nulls'):
            for p in range(n):
                for cls, val in NONMAPPINGS:
                    md = md_background(bg, n, ax)
                    md[p] = val
                    beside = 'beside-void' if (bg == 'nulls' or n == 1) else 'beside-mappings'
                    out.append(('md-nonmapping-' + ax, ':%s:%s' % (cls, beside), 'metadata %r' % (md,), O, S,
                                md if ax == 'obs' else None, md if ax == 'samp' else None, inside))
    return out


# ------------------------------------------------------------------------- cases
def m_shapes(tier):
    return list(D.shapes(tier))            # quick: up to 2x3 / 3x2; thorough adds 1x3, 3x1, 3x3


def x_masks(tier, shape):
    """sparsity masks of product X: all of them, except that the quick tier cuts this factor for
    the 6-cell shapes to five named masks (empty, full, last column empty, last row empty,
    checkerboard)"""
    N, M = shape
    n = N * M
    if tier != 'quick' or n <= 4:
        return D.masks(shape)
    full = (1 << n) - 1
    lastcol = sum(1 << (i * M + M - 1) for i in range(N))
    lastrow = sum(1 << ((N - 1) * M + j) for j in range(M))
    checker = sum(1 << (i * M + j) for i in range(N) for j in range(M) if (i + j) % 2 == 0)
    return sorted({0, full, full & ~lastcol, full & ~lastrow, checker})


def adj_max(tier):
    return 3 if tier == 'quick' else 4


def cases(tier, seed):
    out = []
    for shape in m_shapes(tier):
        for code in range(3 ** (shape[0] * shape[1])):
            out.append({'prod': 'M', 'shape': list(shape), 'code': code})
    for shape in m_shapes(tier):
        for mask in x_masks(tier, shape):
            for form in FORMS:
                out.append({'prod': 'X', 'shape': list(shape), 'mask': mask, 'form': form})
    for k in range(1, adj_max(tier) + 1):
        for ms in itertools.combinations_with_replacement(range(len(ADJ_RECS)), k):
            out.append({'prod': 'ADJ', 'recs': list(ms)})
    cb_len = 2 if tier == 'quick' else 3
    for k in range(1, 5):
        for seq in itertools.product(range(len(UC_MENU)), repeat=k):
            out.append({'prod': 'UC', 'seq': list(seq), 'callback': k <= cb_len})
    return out


# ------------------------------------------------------------------------- checks
def construct(builder, A, O, S, omd=None, smd=None):
    from biom import Table
    data, kw = builder(A)
    return Table(data, O, S, omd, smd, **kw)


def check_M(case, acc):
    shape = tuple(case['shape'])
    A = matrix_of(shape, case['code'])
    model = [[float(v) for v in row] for row in A.tolist()]
    O, S = oids(shape[0]), sids(shape[1])
    F = form_builders()
    if np.count_nonzero(A):
        acc.nontrivial.add(h64(('M', shape, case['code'])))

    def bad(sig, detail):
        acc.violation(sig, detail, case)

    built = {}
    for name in FORMS:
        try:
            enc = F[name](A)
        except Exception as e:           # scipy refusing to encode is a harness matter
            raise AssertionError('cannot encode %r as %s: %s' % (model, name, e))
        if enc is None:
            acc.count('form-not-applicable:' + name)
            if name == 'rowdicts_sparse' and np.count_nonzero(A):
                # the form then carries a narrower shape than the ids: must be refused
                check_narrow_rowdicts(A, O, S, acc, bad)
            continue
        acc.trans += 1
        acc.evals += 1
        import scipy.sparse as _sp
        snap = None
        if _sp.issparse(enc[0]):
            snap = (enc[0].getformat(), enc[0].nnz, enc[0].toarray().tolist(),
                    [a.tolist() for a in (getattr(enc[0], 'data', None), getattr(enc[0], 'indices', None))
                     if isinstance(a, np.ndarray)])
        try:
            from biom import Table
            t = Table(enc[0], O, S, **enc[1])
        except Exception as e:
            bad('form-raised:%s:%s' % (name, type(e).__name__), '%s of %r raised %s: %s'
                % (name, model, type(e).__name__, str(e)[:200]))
            continue
        acc.count('form:' + name)
        if snap is not None:
            # the caller's matrix is an input, not the table's storage: building the table, and changing the
            # table in place afterwards, must leave it alone, so that a second table built from it is the same
            try:
                t.transform(lambda v, i, md: v * 3 + 1, axis='observation', inplace=True)
                t.transform(lambda v, i, md: v * 5 + 2, axis='sample', inplace=True)
                now = (enc[0].getformat(), enc[0].nnz, enc[0].toarray().tolist(),
                       [a.tolist() for a in (getattr(enc[0], 'data', None), getattr(enc[0], 'indices', None))
                        if isinstance(a, np.ndarray)])
                t2 = Table(enc[0], O, S, **enc[1])
                got2 = [[float(v) for v in row] for row in t2.matrix_data.toarray().tolist()]
            except Exception as e:
                bad('form-raised:%s:%s' % (name, type(e).__name__), 'second construction from the same %s object '
                    'raised %s: %s' % (name, type(e).__name__, str(e)[:200]))
                continue
            if now != snap:
                bad('form-input-modified:' + family(name), 'the %s matrix handed to the constructor was changed '
                    '(by the construction or by later in-place operations on the table): %r -> %r' % (name, snap, now))
                continue
            if got2 != model:
                bad('form-values:' + name, 'a second table built from the same %s object holds %r, not %r'
                    % (name, got2, model))
                continue
            acc.count('clause:sparse-input-left-alone')
            t = Table(enc[0], O, S, **enc[1])
        ok = True
        if tuple(t.shape) != shape:
            bad('form-shape:' + name, '%s of %r has shape %r' % (name, model, tuple(t.shape)))
            continue
        if [str(i) for i in t.ids(axis='observation')] != O or [str(i) for i in t.ids()] != S:
            bad('form-ids:' + name, '%s: ids %r / %r' % (name, list(t.ids(axis='observation')), list(t.ids())))
            ok = False
        got = [[float(v) for v in row] for row in t.matrix_data.toarray().tolist()]
        if got != model:
            bad('form-values:' + name, '%s of %r holds %r' % (name, model, got))
            ok = False
        else:
            for i, o in enumerate(O):
                for j, s in enumerate(S):
                    acc.trans += 1
                    v = t.get_value_by_ids(o, s)
                    if float(v) != model[i][j]:
                        bad('form-getvalue:' + name, '%s of %r: get_value_by_ids(%s,%s) = %r'
                            % (name, model, o, s, v))
                        ok = False
        acc.count('clause:holds-values')
        if ok:
            built[name] = t
        acc.outcomes.add(h64(('M', shape, got)))
    P.state(acc, 'M', shape, case['code'], tuple(sorted(built)))
    # ---- pairwise equality
    names = list(built)
    if REF in built:
        ref = built[REF]
        neq = set()
        for n in names:
            if n == REF:
                continue
            acc.trans += 2
            acc.evals += 1
            a, b = (ref == built[n]), (built[n] == ref)
            if not (a is True or a is np.True_) or not (b is True or b is np.True_):
                neq.add(n)
                bad('forms-unequal:' + n, 'Table(%s) == Table(%s) is %r / reversed %r for matrix %r'
                    % (REF, n, a, b, model))
        rest = [n for n in names if n != REF and n not in neq]
    else:
        rest = names
    for a, b in itertools.combinations(rest, 2):
        acc.trans += 1
        acc.evals += 1
        r = built[a] == built[b]
        if not (r is True or r is np.True_):
            bad('forms-unequal:pair-not-involving-reference', 'Table(%s) == Table(%s) is %r for matrix %r '
                'although both equal the dense form' % (a, b, r, model))
    acc.count('clause:pairwise-equal')


def check_narrow_rowdicts(A, O, S, acc, bad):
    from biom import Table
    from biom.exception import TableException
    data = [{(0, j): float(A[i, j]) for j in range(A.shape[1]) if A[i, j] != 0} for i in range(A.shape[0])]
    acc.trans += 1
    acc.evals += 1
    try:
        t = Table(data, O, S)
    except TableException:
        acc.count('clause:rowdicts-narrower-than-ids-refused')
        return
    except Exception as e:
        if not data[0] and not any(data):
            return
        bad('malformed-wrong-exception:ids-many-samp:rowdicts:%s' % type(e).__name__,
            'row dicts %r (widest key < number of sample ids) with ids %r raised %s: %s'
            % (data, S, type(e).__name__, str(e)[:200]))
        return
    bad('malformed-accepted:ids-many-samp:rowdicts', 'row dicts %r describe %d columns, %d sample ids '
        'were accepted: shape %r' % (data, 1 + max(k[1] for d in data for k in d), len(S), tuple(t.shape)))


def check_X(case, acc):
    from biom import Table
    from biom.exception import TableException
    shape = tuple(case['shape'])
    N, M = shape
    form = case['form']
    A = np.array(D.matrix(shape, case['mask'], 0, [1.0, 2.5]), float).reshape(shape)
    builder = form_builders()[form]
    enc = builder(A)
    if enc is None:
        acc.count('X-form-not-applicable:' + form)
        return
    data, kw = enc
    acc.nontrivial.add(h64(('X', shape, case['mask'], form)))
    coord = form in COORD_FORMS
    if coord:
        listed = list(data.keys()) if isinstance(data, dict) else [(r[0], r[1]) for r in data]

    def bad(sig, detail):
        acc.violation(sig, detail, case)

    # the well-formed input must be accepted, otherwise the rejections below mean nothing
    acc.trans += 1
    try:
        Table(builder(A)[0], oids(N), sids(M), **kw)
        acc.count('X-wellformed-accepted')
    except Exception as e:
        acc.count('X-wellformed-refused:%s' % form)      # reported by product M
        return
    for idx, (kind, extra, what, O, S, omd, smd, outside) in enumerate(malformations(N, M)):
        if case.get('only') is not None and idx != case['only']:
            continue                     # replay of one recorded malformation
        acc.trans += 1
        acc.evals += 1
        acc.count('malformation:' + kind)
        data = builder(A)[0]             # fresh input object every time
        idcount = kind.startswith('ids-')

        def bad(sig, detail, idx=idx):   # the recorded case names the one malformation
            acc.violation(sig, detail, dict(case, only=idx, malformation=kind + extra))

        fsig = ':' + family(form) if idcount else ''
        try:
            t = Table(data, O, S, omd, smd, **kw)
        except TableException:
            acc.count('clause:rejected-with-TableException')
            acc.outcomes.add(h64(('X', kind, extra, 'TableException')))
            continue
        except Exception as e:
            acc.outcomes.add(h64(('X', kind, extra, type(e).__name__)))
            if coord and idcount:
                # scope note: only "no table is produced" is demanded of coordinate forms
                acc.count('clause:coordinate-form-no-table')
                continue
            bad('malformed-wrong-exception:%s%s%s:%s' % (kind, extra, fsig, type(e).__name__),
                '%s input of %r with %s (ids %r / %r) raised %s instead of TableException: %s'
                % (form, A.tolist(), what, O, S, type(e).__name__, str(e)[:160]))
            continue
        acc.outcomes.add(h64(('X', kind, extra, 'accepted')))
        if coord and idcount:
            if any(outside(i, j) for i, j in listed):
                bad('malformed-accepted:%s:coordinate-outside%s' % (kind, fsig),
                    '%s input %r lists a coordinate outside ids %r / %r but a table of shape %r was produced'
                    % (form, data, O, S, tuple(t.shape)))
            else:
                acc.count('coordinate-form-accepted-without-outside-coordinate:' + kind)
            continue
        bad('malformed-accepted:%s%s%s' % (kind, extra, fsig),
            '%s (ids %r / %r) was accepted: shape %r, metadata %r / %r; matrix %r given as %s%s'
            % (what, O, S, tuple(t.shape), t.metadata(axis='observation'), t.metadata(axis='sample'),
               A.tolist(), form, '' if idcount else ' (this clause does not depend on the input form)'))
    P.state(acc, 'X', shape, case['mask'], form)


def check_ADJ(case, acc, tmp):
    from biom import Table
    recs = [ADJ_RECS[k] for k in case['recs']]
    exp = {}
    for o, s, v in recs:
        exp[(o, s)] = exp.get((o, s), 0.0) + float(v)
    EO, ES = sorted({r[0] for r in recs}), sorted({r[1] for r in recs})
    acc.nontrivial.add(h64(('ADJ', tuple(case['recs']))))

    def bad(sig, detail):
        acc.violation(sig, detail, case)

    for order in ('given', 'reversed'):
        rs = recs if order == 'given' else recs[::-1]
        if order == 'reversed' and rs == recs:
            continue
        for header in (True, False):
            lines = ([ADJ_HEADER] if header else []) + ['%s\t%s\t%s' % r for r in rs]
            for cont in ADJ_CONTAINERS:
                acc.trans += 1
                acc.evals += 1
                acc.count('adjacency:%s:%s' % (cont, 'header' if header else 'noheader'))
                fh = None
                try:
                    if cont == 'list':
                        arg = list(lines)
                    elif cont == 'list_nl':
                        arg = [ln + '\n' for ln in lines]
                    elif cont == 'string':
                        arg = '\n'.join(lines)
                    elif cont == 'string_nl':
                        arg = '\n'.join(lines) + '\n'
                    elif cont == 'stringio':
                        arg = io.StringIO('\n'.join(lines) + '\n')
                    else:
                        p = os.path.join(tmp, 'c17_adj.txt')
                        with open(p, 'w') as f:
                            f.write('\n'.join(lines) + '\n')
                        fh = arg = open(p)
                    try:
                        t = Table.from_adjacency(arg)
                    finally:
                        if fh is not None:
                            fh.close()
                except Exception as e:
                    bad('adjacency-raised:%s:%s' % (cont, type(e).__name__), 'from_adjacency(%s of %r) raised %s: %s'
                        % (cont, lines, type(e).__name__, str(e)[:160]))
                    continue
                go, gs = [str(i) for i in t.ids(axis='observation')], [str(i) for i in t.ids()]
                if sorted(go) != EO or sorted(gs) != ES or len(set(go)) != len(go) or len(set(gs)) != len(gs) \
                        or tuple(t.shape) != (len(EO), len(ES)):
                    bad('adjacency-ids:' + cont, 'from_adjacency(%s of %r): ids %r / %r shape %r, records name %r / %r'
                        % (cont, lines, go, gs, tuple(t.shape), EO, ES))
                    continue
                got = {}
                for o in EO:
                    for s in ES:
                        acc.trans += 1
                        got[(o, s)] = float(t.get_value_by_ids(o, s))
                want = {(o, s): exp.get((o, s), 0.0) for o in EO for s in ES}
                dense = t.matrix_data.toarray()
                got2 = {(o, s): float(dense[go.index(o), gs.index(s)]) for o in EO for s in ES}
                if got != want or got2 != want:
                    bad('adjacency-values:' + cont, 'from_adjacency(%s of %r): cells %r / matrix %r, sums of the '
                        'records %r' % (cont, lines, got, got2, want))
                    continue
                acc.count('clause:adjacency-sums')
                acc.outcomes.add(h64(('ADJ', sorted(want.items()))))
    P.state(acc, 'ADJ', tuple(case['recs']))


def uc_compare(t, obs, samp, cnt, rename=None):
    """-> None or (clause, detail)"""
    rename = rename or {}
    eo = [rename.get(o, o) for o in obs]
    go, gs = [str(i) for i in t.ids(axis='observation')], [str(i) for i in t.ids()]
    if sorted(go) != sorted(eo) or sorted(gs) != sorted(samp) or len(set(go)) != len(go) or \
            len(set(gs)) != len(gs):
        return 'ids', 'ids %r / %r, the records name %r / %r' % (go, gs, eo, samp)
    if go and gs:
        dense = t.matrix_data.toarray()
        for o in obs:
            for s in samp:
                w = float(cnt.get((o, s), 0))
                g = float(t.get_value_by_ids(rename.get(o, o), s))
                g2 = float(dense[go.index(rename.get(o, o)), gs.index(s)])
                if g != w or g2 != w:
                    return 'values', 'cell (%s,%s) is %r / %r, the records count %r' % (o, s, g, g2, w)
    return None


def check_UC(case, acc, tmp):
    from biom.parse import parse_uc
    from biom.cli.uc_processor import _from_uc, from_uc
    from biom import load_table
    seq = case['seq']
    lines = [uc_line(k) for k in seq]
    obs, samp, cnt = uc_model(seq)
    for k in seq:
        acc.count('uc-record:' + UC_KIND[k])
    if cnt:
        acc.nontrivial.add(h64(('UC', tuple(seq))))
    text = '\n'.join(lines) + '\n'

    def bad(sig, detail):
        acc.violation(sig, detail, case)

    routes = [('parse_uc:list', lambda: parse_uc(list(lines)), None),
              ('parse_uc:list_nl', lambda: parse_uc([ln + '\n' for ln in lines]), None),
              ('parse_uc:handle', lambda: parse_uc(io.StringIO(text)), None),
              ('_from_uc:nomap', lambda: _from_uc(io.StringIO(text)), None),
              ('_from_uc:complete', lambda: _from_uc(io.StringIO(text), io.StringIO(''.join(FASTA_COMPLETE))),
               MAP_COMPLETE),
              ('_from_uc:incomplete', lambda: _from_uc(io.StringIO(text), io.StringIO(''.join(FASTA_INCOMPLETE))),
               MAP_INCOMPLETE)]
    for name, f, rename in routes:
        acc.trans += 1
        acc.evals += 1
        try:
            t = f()
        except Exception as e:
            if name == '_from_uc:incomplete' and isinstance(e, ValueError) and \
                    any(o not in MAP_INCOMPLETE for o in obs):
                acc.count('clause:uc-incomplete-map-refused')     # documented refusal
                continue
            bad('uc-raised:%s:%s' % (name, type(e).__name__), '%s on %r raised %s: %s'
                % (name, lines, type(e).__name__, str(e)[:160]))
            continue
        r = uc_compare(t, obs, samp, cnt, rename)
        if r:
            bad('uc-%s:%s' % (r[0], name), '%s on %r: %s' % (name, lines, r[1]))
            continue
        acc.count('clause:uc-counts')
        acc.count('uc-route:' + name)
        acc.outcomes.add(h64(('UC', sorted(cnt.items()), sorted(obs), name.endswith('complete'))))
    if case.get('callback') and cnt:
        # the click command proper: real files, HDF5 output (only tables with >= 1 count: an empty
        # axis is outside the HDF5 property's domain)
        inp = os.path.join(tmp, 'c17.uc')
        fa = os.path.join(tmp, 'c17.fna')
        with open(inp, 'w') as f:
            f.write(text)
        with open(fa, 'w') as f:
            f.write(''.join(FASTA_COMPLETE))
        for name, rep, rename in (('from-uc', None, None), ('from-uc:rep-set', fa, MAP_COMPLETE)):
            outp = os.path.join(tmp, 'c17_out.biom')
            if os.path.exists(outp):
                os.unlink(outp)
            acc.trans += 2
            acc.evals += 1
            try:
                from_uc.callback(input_fp=inp, output_fp=outp, rep_set_fp=rep)
                t = load_table(outp)
                r = uc_compare(t, obs, samp, cnt, rename)
                err = None
            except Exception as e:
                r, err = None, e
            if err is not None or r:
                # control: is the HDF5 stage (another property) to blame?
                try:
                    from biom.cli.util import write_biom_table
                    c = _from_uc(io.StringIO(text), None if rep is None else io.StringIO(''.join(FASTA_COMPLETE)))
                    ctl = os.path.join(tmp, 'c17_ctl.biom')
                    if os.path.exists(ctl):
                        os.unlink(ctl)
                    write_biom_table(c, 'hdf5', ctl)
                    c2 = load_table(ctl)
                    ctl_ok = uc_compare(c2, obs, samp, cnt, rename) is None
                except Exception:
                    ctl_ok = False
                if not ctl_ok:
                    acc.count('attributed-elsewhere:from-uc-hdf5')
                elif err is not None:
                    bad('uc-raised:%s:%s' % (name, type(err).__name__), '`biom %s` callback on %r raised %s: %s'
                        % (name, lines, type(err).__name__, str(err)[:160]))
                else:
                    bad('uc-%s:%s' % (r[0], name), '`biom %s` callback on %r: %s' % (name, lines, r[1]))
                continue
            acc.count('uc-route:' + name)
    P.state(acc, 'UC', tuple(seq))


def check(case, acc, tmp):
    acc.count('prod:' + case['prod'])
    if case['prod'] == 'M':
        return check_M(case, acc)
    if case['prod'] == 'X':
        return check_X(case, acc)
    if case['prod'] == 'ADJ':
        return check_ADJ(case, acc, tmp)
    if case['prod'] == 'UC':
        return check_UC(case, acc, tmp)
    raise KeyError(case['prod'])


def run(run):
    cs = cases(run.tier, run.seed)
    n = 64
    cs = [x for k in range(n) for x in cs[k::n]]       # deterministic interleaving (load balance)
    P.run_cases(run, cs, check, nchunks=n)
    c = run.acc.counters
    kinds = sorted({m[0] for m in malformations(3, 3)})
    run.extra['products'] = {k[5:]: v for k, v in c.items() if k.startswith('prod:')}
    run.extra['bound'] = {
        'M': {'shapes': m_shapes(run.tier), 'values': VALS, 'matrices': 'all 3^(N*M) of every shape',
              'forms': FORMS,
              'form_applicability': 'int/bool/uint forms: matrices over {0,1}; dense_1d: one observation; '
                                    'rowdicts_sparse: last column not all-zero (otherwise the narrower '
                                    'input must be refused)'},
        'X': {'shapes': m_shapes(run.tier),
              'masks': {'%dx%d' % sh: x_masks(run.tier, sh) if len(x_masks(run.tier, sh)) < 2 ** (sh[0] * sh[1])
                        else 'all %d' % 2 ** (sh[0] * sh[1]) for sh in m_shapes(run.tier)},
              'mask_cell_values': [1.0, 2.5], 'forms': FORMS,
              'malformations': kinds, 'metadata_backgrounds': ['dicts', 'nulls', 'empties'],
              'nonmapping_values': [repr(v) for _, v in NONMAPPINGS]},
        'ADJ': {'records': ['%s %s %s' % r for r in ADJ_RECS], 'multiset_size': '1..%d' % adj_max(run.tier),
                'header': [True, False], 'containers': ADJ_CONTAINERS, 'orders': ['sorted', 'reversed']},
        'UC': {'menu': UC_KIND, 'sequence_length': '1..4',
               'routes': ['parse_uc list / list with terminators / handle', '_from_uc without map',
                          '_from_uc complete fasta map', '_from_uc incomplete fasta map'],
               'from-uc click callback (files, HDF5 out, with and without --rep-set-fp)':
                   'sequences of length <= %d with at least one count' % (2 if run.quick else 3)},
        'seed': 'every product is enumerated completely; VERIF_SEED changes nothing here',
        'cases': len(cs)}
    need = ['prod:M', 'prod:X', 'prod:ADJ', 'prod:UC', 'clause:holds-values', 'clause:pairwise-equal',
            'clause:rejected-with-TableException', 'clause:coordinate-form-no-table',
            'clause:rowdicts-narrower-than-ids-refused', 'clause:adjacency-sums', 'clause:uc-counts',
            'clause:uc-incomplete-map-refused', 'X-wellformed-accepted'] + \
        ['form:' + f for f in FORMS] + ['malformation:' + k for k in kinds] + \
        ['uc-record:' + k for k in sorted(set(UC_KIND))] + \
        ['uc-route:' + r for r in ('parse_uc:list', 'parse_uc:handle', '_from_uc:nomap', '_from_uc:complete',
                                   '_from_uc:incomplete', 'from-uc', 'from-uc:rep-set')] + \
        ['adjacency:%s:%s' % (k, h) for k in ADJ_CONTAINERS for h in ('header', 'noheader')]
    vacuity(run, need)
    run.assumptions += [
        'numpy / scipy.sparse constructors are trusted to encode the matrix in each input form',
        'scipy sparse *arrays* (csr_array, ...) are not among the accepted forms (isspmatrix is false for '
        'them) and are not enumerated',
        'row-dict form with every dict empty (all-zero matrix, zeros omitted) carries no shape at all and '
        'is not enumerated',
        'id order produced by from_adjacency / parse_uc is not part of the statement: id sets and every '
        '(observation, sample) cell are compared',
        'an incomplete fasta map is allowed to be refused with ValueError (documented); when a table is '
        'returned its cells must still be the counts',
        'the HDF5 stage behind the from-uc click callback is guarded by a control run (C01 territory)']


def replay(case):
    return P.replay_case(check, case)
