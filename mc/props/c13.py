"""C13 – value transforms touch only non-zero entries and mean what they say.

Part 1 (E2): every sparsity mask of the asymmetric shapes x value pool (distinct values /
values with ties / values with negatives) x layout prefix x axis x inplace x function
family, with the user function monitored; norm, pa, rankdata (5 tie methods) and the
normalize-table command.
Part 2 (E1): transform/norm/pa/rankdata judged against the model after every operation
history of bounded depth.
"""
import itertools
import os

import numpy as np

from .. import explorer as E
from .. import observe as O
from .. import ops as OPS
from .. import pipeline as P
from ..compare import diff
from ..core import h64, vacuity
from ..model import M

LEVEL = 'model_checking'
RULE = ('part 1: every sparsity mask of the shapes {1x3,3x1,2x3,3x2} (+3x3 thorough) x 3 value pools x 3 '
        'layout prefixes x axis x inplace x {x*8+1/8 tag, +1, square, v/sum, v-min (zeroes entries), id-'
        'dependent, metadata-dependent} with a monitored function, norm, pa, rankdata x 5 tie methods, '
        'normalize-table; non-trivial = at least one non-zero cell, distinct by (shape, mask, pool, '
        'layout). part 2: BFS over histories with the value transforms judged against the dense model')

OID = ['o10', 'o9', 'o2', 'o4', 'o5', 'o6']
SID = ['s2', 's1', 's3', 's4', 's5', 's6']
LAYOUTS = ['csr', 'csc', 'unsorted']
POOLS = {
    'distinct': [1.0, 2.0, 3.0, 0.5, 5.0, 0.25, 7.0, 8.0, 9.0],
    'ties': [2.0, 2.0, 1.0, 2.0, 1.0, 1.0, 3.0, 3.0, 2.0],
    'negative': [1.0, -2.0, 3.0, -0.5, 5.0, 0.25, -7.0, 8.0, -9.0],
    # magnitudes at and below 1e-8, sub-normal totals (a reciprocal would overflow), one huge value
    'ties6': [2.0, 2.0, 1.0, 1.0, 2.0, 1.0],
    'tiny': [1e-9, 2.5e-10, 1e-310, 3e-310, 2e-9, 5e-324, 1e-8, 4e-310, 3e-9],
}
TRANSFORM_OPS = ('transform2', 'transform_zero', 'norm', 'rank', 'pa', 'transform2_flag', 'pa_flag')
TIE_METHODS = ('average', 'min', 'max', 'dense', 'ordinal')


def make(case):
    from biom import Table
    N, Mm = case['shape']
    pool = POOLS[case['pool']]
    D = np.zeros((N, Mm))
    for i in range(N):
        for j in range(Mm):
            k = i * Mm + j
            if (case['mask'] >> k) & 1:
                D[i, j] = pool[k % len(pool)]
    oids, sids = OID[:N], SID[:Mm]
    omd = [{'w': float(i + 2)} for i in range(N)]
    smd = [{'w': float(10 * (j + 1))} for j in range(Mm)]
    cp = (lambda x: [dict(e) for e in x])
    lay = case['layout']
    if lay in ('csr', 'csc'):
        t = Table(D, oids, sids, cp(omd), cp(smd), type='OTU table')
        if lay == 'csc':
            t.data(sids[0], 'sample')
    else:
        t = Table(D[:, ::-1], oids, sids[::-1], cp(omd), cp(smd[::-1]), type='OTU table')
        t = t.sort_order(sids, axis='sample')
        t.type = 'OTU table'
    return t, M(oids, sids, D.tolist(), omd, smd, 'OTU table')


def cases(tier, seed):
    shapes = [(1, 3), (3, 1), (2, 3), (3, 2)] + ([(3, 3)] if tier == 'thorough' else [])
    out = []
    for sh in shapes:
        for mask in range(1 << (sh[0] * sh[1])):
            for pool in POOLS:
                for lay in LAYOUTS:
                    out.append({'shape': list(sh), 'mask': mask, 'pool': pool, 'layout': lay})
    # longer vectors with ties (a sort that is only stable on very short inputs shows here)
    for sh in ((1, 6), (6, 1)):
        for mask in range(1 << 6):
            for lay in LAYOUTS:
                out.append({'shape': list(sh), 'mask': mask, 'pool': 'ties6', 'layout': lay})
    return out


def my_rank(vals, method):
    """independent rank computation; for 'ordinal' returns None (checked structurally)"""
    n = len(vals)
    srt = sorted(vals)
    out = []
    distinct = sorted(set(vals))
    for x in vals:
        lo = sum(1 for y in srt if y < x) + 1
        hi = sum(1 for y in srt if y <= x)
        if method == 'average':
            out.append((lo + hi) / 2.0)
        elif method == 'min':
            out.append(float(lo))
        elif method == 'max':
            out.append(float(hi))
        elif method == 'dense':
            out.append(float(distinct.index(x) + 1))
        else:
            return None
    return out


FUNCS = {
    # name: (library function, model function on python lists) – all permutation-equivariant
    'tag': (lambda v, i, md: v * 8 + 0.125, lambda v, i, md: [x * 8 + 0.125 for x in v]),
    'plus1': (lambda v, i, md: v + 1, lambda v, i, md: [x + 1 for x in v]),
    'square': (lambda v, i, md: v * v, lambda v, i, md: [x * x for x in v]),
    'relsum': (lambda v, i, md: v / v.sum() if v.size and v.sum() != 0 else v,
               lambda v, i, md: [x / sum(v) for x in v] if v and sum(v) != 0 else list(v)),
    'minus_min': (lambda v, i, md: v - v.min() if v.size else v,
                  lambda v, i, md: [x - min(v) for x in v] if v else []),
    'by_id': (lambda v, i, md: v * (2 if str(i).endswith('9') or str(i).endswith('1') else 4),
              lambda v, i, md: [x * (2 if i.endswith('9') or i.endswith('1') else 4) for x in v]),
    'by_md': (lambda v, i, md: v * md['w'], lambda v, i, md: [x * md['w'] for x in v]),
    # doubles the vector, and on the way reads the table being transformed along the other axis (the library
    # function is bound to the table inside check)
    'reads_table': (None, lambda v, i, md: [x * 2 for x in v]),
}
ELEMENTWISE = ('tag', 'plus1', 'square')


def check(case, acc, tmp):
    t0, m0 = make(case)
    if case['mask']:
        acc.nontrivial.add(h64((tuple(case['shape']), case['mask'], case['pool'], case['layout'])))
    acc.count('layout:' + O.layout_class(t0))
    P.state(acc, 'src', O.concrete_key(t0))
    neg = case['pool'] == 'negative'
    dens0 = sum(1 for r in m0.m for x in r if x != 0)

    def bad(sig, detail, **kw):
        c = dict(case)
        c.update(kw)
        acc.violation(sig, detail, c)

    def judge(r, exp, what, tol=False, **kw):
        acc.evals += 1
        d = diff(r, exp, tol=tol)
        if d is not None:
            bad(what + ':result', '%s: %s' % (what, d), **kw)
            return False
        nzr = int(np.count_nonzero(r.matrix_data.toarray()))
        if nzr > dens0 or r.nnz > dens0:
            bad(what + ':density-increased', '%s: %d non-zero cells after, %d before' % (what, nzr, dens0), **kw)
            return False
        acc.outcomes.add(O.content_key(r))
        acc.count('clause:' + what)
        return True

    elementwise_results = {}
    for ax in ('observation', 'sample'):
        ids = m0.ids(ax)
        md = m0.md(ax)
        for inpl in (False, True):
            for fname, (lf, mf) in FUNCS.items():
                t, _ = make(case)
                seen = []
                if fname == 'reads_table':
                    oth = 'sample' if ax == 'observation' else 'observation'
                    oid = m0.ids(oth)[0]
                    lf = (lambda v, i, mdd, t=t, oth=oth, oid=oid: (t.data(oid, axis=oth), v * 2)[1])

                def mon(v, i, mdd, lf=lf, seen=seen):
                    seen.append((str(i), sorted(float(x) for x in v), None if mdd is None else dict(mdd)))
                    return lf(v, i, mdd)
                acc.trans += 1
                try:
                    r = t.transform(mon, axis=ax, inplace=inpl)
                except Exception as e:
                    bad('transform:raised', 'transform(%s) raised %s: %s' % (fname, type(e).__name__, e),
                        axis=ax, inplace=inpl, func=fname)
                    continue
                kw = dict(axis=ax, inplace=inpl, func=fname)
                exp_calls = [(ids[k], sorted(x for x in m0.vec(ax, k) if x != 0), dict(md[k]))
                             for k in range(len(ids))]
                acc.evals += 1
                if seen != exp_calls:
                    what = 'count' if len(seen) != len(exp_calls) else \
                        ('order' if [s[0] for s in seen] != [e[0] for e in exp_calls] else
                         ('values' if [s[1] for s in seen] != [e[1] for e in exp_calls] else 'metadata'))
                    bad('transform:function-args:' + what, 'function received %r, vectors hold %r'
                        % (seen, exp_calls), **kw)
                else:
                    acc.count('clause:function-args')
                exp = m0.transform(ax, mf)
                ok = judge(r, exp, 'transform', tol=(fname == 'relsum' or case['pool'] == 'tiny'), **kw)
                if not inpl:
                    # "in place or not": the copying variant must leave the table it was called on alone
                    acc.evals += 1
                    if diff(t, m0) is not None:
                        bad('transform:source-modified', 'transform(%s, inplace=False) changed the table it was '
                            'called on: %s' % (fname, diff(t, m0)), **kw)
                    elif r is t:
                        bad('transform:source-modified', 'transform(inplace=False) returned the receiver itself', **kw)
                    else:
                        acc.count('clause:copying-variant-leaves-source')
                if ok and fname in ELEMENTWISE and not inpl:
                    elementwise_results.setdefault(fname, {})[ax] = O.content(r)
            # norm
            if not neg:
                t, _ = make(case)
                acc.trans += 1
                try:
                    r = t.norm(axis=ax, inplace=inpl)
                    if judge(r, m0.norm(ax), 'norm', tol=(case['pool'] == 'tiny'), axis=ax, inplace=inpl):
                        rm = OPS.adopt(r)
                        for k in range(len(ids)):
                            tot = sum(m0.vec(ax, k))
                            s = sum(rm.vec(ax, k))
                            if tot > 0 and abs(s - 1.0) > (1e-12 if case['pool'] != 'tiny' else 1e-9):
                                bad('norm:sum', 'vector %s sums to %r after norm' % (ids[k], s), axis=ax, inplace=inpl)
                except Exception as e:
                    bad('norm:raised', 'norm raised %s: %s' % (type(e).__name__, e), axis=ax, inplace=inpl)
            # rankdata
            for method in TIE_METHODS:
                t, _ = make(case)
                acc.trans += 1
                try:
                    r = t.rankdata(axis=ax, inplace=inpl, method=method)
                except Exception as e:
                    bad('rankdata:raised', 'rankdata(%s) raised %s: %s' % (method, type(e).__name__, e),
                        axis=ax, inplace=inpl, method=method)
                    continue
                if method == 'ordinal' and case['layout'] in ('csr', 'csc'):
                    # ties are ranked in the order in which they occur along the vector
                    def occ(v, i, mdd):
                        order = sorted(range(len(v)), key=lambda k: (v[k], k))
                        out = [0.0] * len(v)
                        for rank, k in enumerate(order):
                            out[k] = float(rank + 1)
                        return out
                    judge(r, m0.transform(ax, occ), 'rankdata', axis=ax, inplace=inpl, method=method)
                elif method != 'ordinal':
                    judge(r, m0.transform(ax, lambda v, i, mdd: my_rank(v, method)), 'rankdata',
                          axis=ax, inplace=inpl, method=method)
                else:
                    acc.evals += 1
                    rm = OPS.adopt(r)
                    okk = (rm.o, rm.c) == (m0.o, m0.c)
                    for k in range(len(ids)):
                        if not okk:
                            break
                        ov, rv = m0.vec(ax, k), rm.vec(ax, k)
                        nzp = [p for p, x in enumerate(ov) if x != 0]
                        if any(rv[p] != 0 for p in range(len(ov)) if p not in nzp):
                            okk = False
                        ranks = sorted(rv[p] for p in nzp)
                        if ranks != [float(x) for x in range(1, len(nzp) + 1)]:
                            okk = False
                        for a in nzp:
                            for b in nzp:
                                if ov[a] < ov[b] and not rv[a] < rv[b]:
                                    okk = False
                    if not okk:
                        bad('rankdata:result', 'ordinal ranks %r for %r' % (rm.m, m0.m), axis=ax,
                            inplace=inpl, method=method)
                    else:
                        acc.count('clause:rankdata')
    # pa
    for inpl in (False, True):
        t, _ = make(case)
        acc.trans += 1
        try:
            r = t.pa(inplace=inpl)
            judge(r, m0.pa(), 'pa', inplace=inpl)
        except Exception as e:
            bad('pa:raised', 'pa raised %s: %s' % (type(e).__name__, e), inplace=inpl)
    # element-wise function: same table along either axis
    for fname, res in elementwise_results.items():
        if len(res) == 2:
            acc.evals += 1
            if res['observation'] != res['sample']:
                bad('elementwise-axis-dependent', 'element-wise %s gives different tables along the two axes'
                    % fname, func=fname)
            else:
                acc.count('clause:elementwise-axis-independent')
    # normalize-table (in-process worker function)
    from biom.cli.table_normalizer import _normalize_table
    for ax in ('observation', 'sample'):
        for mode in ('relative', 'pa'):
            if mode == 'relative' and neg:
                continue
            t, _ = make(case)
            acc.trans += 1
            try:
                r = _normalize_table(t, relative_abund=(mode == 'relative'),
                                     presence_absence=(mode == 'pa'), axis=ax)
                judge(r, m0.norm(ax) if mode == 'relative' else m0.pa(), 'normalize-table', axis=ax, mode=mode)
            except Exception as e:
                bad('normalize-table:raised', '_normalize_table raised %s: %s' % (type(e).__name__, e),
                    axis=ax, mode=mode)
    # the command itself (HDF5 in, HDF5 out) on the dense masks only: file I/O dominates
    full = (1 << (case['shape'][0] * case['shape'][1])) - 1
    if case['mask'] in (full, full >> 1) and case['layout'] == 'csr' and not neg:
        import h5py
        from biom import load_table
        from biom.cli.table_normalizer import normalize_table
        for ax in ('observation', 'sample'):
            for mode in ('relative', 'pa'):
                t, _ = make(case)
                src = os.path.join(tmp, 'n_in.biom')
                dst = os.path.join(tmp, 'n_out.biom')
                for p in (src, dst):
                    if os.path.exists(p):
                        os.unlink(p)
                with h5py.File(src, 'w') as fh:
                    t.to_hdf5(fh, 'verif')
                acc.trans += 1
                try:
                    normalize_table.callback(input_fp=src, output_fp=dst, relative_abund=(mode == 'relative'),
                                             presence_absence=(mode == 'pa'), axis=ax)
                    r = load_table(dst)
                    judge(r, m0.norm(ax) if mode == 'relative' else m0.pa(), 'normalize-table-command',
                          axis=ax, mode=mode)
                except Exception as e:
                    bad('normalize-table:raised', 'normalize-table command raised %s: %s'
                        % (type(e).__name__, e), axis=ax, mode=mode)


def spec(depth):
    allops = OPS.all_ops()
    last = [o for o in allops if o[0] in TRANSFORM_OPS]
    return E.Spec(OPS.start_tables(), allops, depth, check_ops=TRANSFORM_OPS, last_level_ops=last,
                  label='histories-d%d' % depth)


def run(run):
    cs = cases(run.tier, run.seed)
    P.run_cases(run, cs, check, nchunks=256)
    depth = 2 if run.quick else 3
    info = E.explore(run, spec(depth))
    run.extra['bound'] = {'part1_cases': len(cs), 'layouts': LAYOUTS, 'pools': list(POOLS),
                          'functions': list(FUNCS), 'tie_methods': TIE_METHODS,
                          'shapes': sorted({tuple(c['shape']) for c in cs}),
                          'part2_depth': info['depth_completed']}
    vacuity(run, ['clause:function-args', 'clause:transform', 'clause:norm', 'clause:rankdata', 'clause:pa',
                  'clause:elementwise-axis-independent', 'clause:normalize-table',
                  'clause:normalize-table-command'] + ['op:' + o for o in TRANSFORM_OPS])
    run.assumptions.append('user functions are permutation-equivariant (the library hands values in storage '
                           'order, which is not part of the property); arguments are compared as multisets')


def replay(case):
    if 'history' in case:
        return E.replay_history(spec(len(case['history'])), case)
    base = {k: case[k] for k in ('shape', 'mask', 'pool', 'layout')}
    return P.replay_case(check, base)
