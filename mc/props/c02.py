"""C02 – the JSON (BIOM 1.0) writer emits well-formed JSON that reads back exactly.

Engine E2.  For every table spec of three exhaustive products (A: all masks x layouts,
B: id styles x metadata kinds x headers, C: the JSON value grammar as metadata values)
both writer forms are produced, decoded independently with stdlib json, and read back
through the five readers.
"""
import datetime
import gzip
import io
import itertools
import json
import os

import numpy as np

from .. import domain as D
from .. import observe as O
from .. import pipeline as P
from ..core import h64, vacuity

LEVEL = 'model_checking'
RULE = ('full cartesian products (A: every sparsity mask of every shape x every layout prefix; '
        'V: every pool value with both signs in every cell of 1x1/1x2/2x1; '
        'B: id style x id style, metadata kind x metadata kind, style x kind, each x header variants on '
        'fixed masks; E: tables with an empty axis; Z: cancelling rows; C: every metadata value of a JSON value grammar to depth 2 incl. numpy scalars) '
        'x {string, direct_io} writer x 6 readers, every table read back written a second time, all executed on the real code; a case is '
        'non-trivial when the table has at least one non-zero cell or non-default ids/metadata/header; '
        'distinct by table spec')

DATE = datetime.datetime(2021, 3, 4, 5, 6, 7, 891011)
# creation dates: with microseconds, on a whole second (isoformat drops the fraction), timezone-aware
DATES = [DATE, datetime.datetime(2014, 6, 3), datetime.datetime(2014, 6, 3, 14, 24, 40),
         datetime.datetime(2020, 2, 29, 23, 59, 59, 5, tzinfo=datetime.timezone(datetime.timedelta(hours=2)))]
READERS = ['load_path', 'load_gz', 'parse_handle', 'parse_lines', 'parse_lines_noends', 'from_json']


# ------------------------------------------------------------------------- metadata values
def md_atoms():
    return [
        ('str', 'plain'),
        ('str', 'q"uote \\ back/slash'),
        ('str', 'ctl\t\n\r\x01\x1f end'),
        ('str', 'ünï 日本語 \U0001f600'),
        ('str', ''),
        ('str', 'line\u2028sep\u0085nel\u2029par'),
        ('int', 42),
        ('float', 1e-7),
        ('float', 0.1234567891234567),
        ('bool', True),
        ('null', None),
        ('np.int64', 3),
        ('np.float64', 2.5),
        ('np.bool_', True),
        ('np.array', [1, 2]),
    ]


def realise(v):
    """value description -> the Python object handed to the library"""
    k, x = v
    if k == 'np.int64':
        return np.int64(x)
    if k == 'np.float64':
        return np.float64(x)
    if k == 'np.bool_':
        return np.bool_(x)
    if k == 'np.array':
        return np.array(x)
    if k == 'list':
        return [realise(e) for e in x]
    return x


def plain(v):
    """what the JSON reader must give back"""
    k, x = v
    if k == 'list':
        return [plain(e) for e in x]
    return x


def md_values(tier):
    atoms = md_atoms()
    vals = list(atoms)
    for a, b in itertools.product(atoms, repeat=2):
        vals.append(('list', [a, b]))
    for a in atoms:
        vals.append(('list', [('list', [a]), ('list', [a, atoms[0]])]))
    vals.append(('list', []))
    return vals


# ------------------------------------------------------------------------- cases
FIXED = [((2, 3), 0b111111), ((3, 2), 0b100110), ((1, 1), 1)]


def cases(tier, seed):
    out = []
    rot = seed % len(D.HARD)
    for shape in D.shapes(tier):
        for mask in D.masks(shape):
            for lay in D.LAYOUTS:
                pools = ['hard'] if lay != 'subsample_full' else ['int']
                for pool in pools:
                    out.append({'prod': 'A', 'shape': list(shape), 'mask': mask, 'rot': rot,
                                'pool': pool, 'layout': lay})
    if tier == 'thorough':
        for shape in D.shapes(tier):
            for mask in D.masks(shape):
                out.append({'prod': 'A2', 'shape': list(shape), 'mask': mask,
                            'rot': (rot + 5) % len(D.HARD), 'pool': 'hard', 'layout': 'csr'})
    lays = ['csr', 'unsorted', 'csc'] if tier == 'quick' else D.LAYOUTS[:-1]
    for shape, mask in FIXED:
        for hd in range(len(D.HEADERS)):
            for so, ss in itertools.product(D.ID_STYLES, repeat=2):
                out.append({'prod': 'B-ids', 'shape': list(shape), 'mask': mask, 'rot': rot,
                            'obs_style': so, 'samp_style': ss, 'header': hd,
                            'layout': lays[(len(out)) % len(lays)]})
            for mo, ms in itertools.product(D.MD_KINDS, repeat=2):
                out.append({'prod': 'B-md', 'shape': list(shape), 'mask': mask, 'rot': rot,
                            'obs_md': mo, 'samp_md': ms, 'header': hd,
                            'layout': lays[(len(out)) % len(lays)]})
        for lay in lays:
            out.append({'prod': 'B-ids', 'shape': list(shape), 'mask': mask, 'rot': rot, 'obs_style': 'edgews',
                        'samp_style': 'edgews', 'obs_md': 'textws', 'samp_md': 'textws', 'header': 1, 'layout': lay})
        for st, mk in itertools.product(D.ID_STYLES, D.MD_KINDS):
            for lay in lays:
                out.append({'prod': 'B-x', 'shape': list(shape), 'mask': mask, 'rot': rot,
                            'obs_style': st, 'samp_style': st, 'obs_md': mk, 'samp_md': mk,
                            'header': 1, 'layout': lay})
    # V: every value of the pools (both signs) in every cell of the smallest shapes, independent of the seed
    for v in D.all_values():
        out.append({'prod': 'V', 'shape': [1, 1], 'mask': 1, 'vals': [v], 'layout': 'csr'})
        for other in (1.0, 0.0):
            for sh in ([1, 2], [2, 1]):
                out.append({'prod': 'V', 'shape': sh, 'mask': 3, 'vals': [v, other], 'layout': 'csr'})
                out.append({'prod': 'V', 'shape': sh, 'mask': 3, 'vals': [other, v], 'layout': 'csc'})
    # Z: rows / columns whose mixed-sign values cancel
    for shape, vals in D.CANCEL:
        for lay in ('csr', 'csc', 'unsorted'):
            out.append({'prod': 'Z', 'shape': list(shape), 'mask': (1 << len(vals)) - 1, 'vals': list(vals),
                        'layout': lay})
    # E: tables with an empty axis (ids and metadata on the other one)
    for shape in ([0, 2], [2, 0], [0, 0], [0, 3], [3, 0]):
        for mk in ('none', 'text', 'taxonomy'):
            for st in ('plain', 'punct'):
                out.append({'prod': 'E', 'shape': shape, 'mask': 0, 'rot': rot, 'layout': 'csr', 'obs_md': mk,
                            'samp_md': mk, 'obs_style': st, 'samp_style': st, 'header': 1})
    for dt in range(1, len(DATES)):
        for shape, mask in FIXED:
            out.append({'prod': 'B-date', 'shape': list(shape), 'mask': mask, 'rot': rot, 'header': 1,
                        'layout': 'csr', 'date': dt})
    # every vocabulary type, none, and free text incl. the empty string (falsy but not None)
    for ty in D.TYPES + ['', ' ', '0', 'my "type" \\ ü\u2028']:
        out.append({'prod': 'B-type', 'shape': [2, 2], 'mask': 0b0110, 'rot': rot, 'type': ty,
                    'layout': 'csr'})
    for k, v in enumerate(md_values(tier)):
        for ax in ('observation', 'sample'):
            out.append({'prod': 'C', 'shape': [2, 2], 'mask': 0b1011, 'rot': rot, 'layout': 'csr',
                        'mdvalue': v, 'mdaxis': ax})
    return out


# ------------------------------------------------------------------------- oracle
def build(case):
    t = D.build(case)
    if t is None:
        return None, None
    exp_md = {}
    if 'mdvalue' in case:
        ax = case['mdaxis']
        ids = list(t.ids(ax))
        v = case['mdvalue']
        t.add_metadata({i: {'k': realise(v), 'i': str(i)} for i in ids}, ax)
        exp_md[ax] = [{'k': plain(v), 'i': str(i)} for i in ids]
    return t, exp_md


def pyify(x):
    if isinstance(x, dict):
        return {str(k): pyify(v) for k, v in x.items()}
    if isinstance(x, (list, tuple)):
        return [pyify(v) for v in x]
    if isinstance(x, np.ndarray):
        return pyify(x.tolist())
    if isinstance(x, np.generic):
        return x.item()
    return x


def src_md(t, ax):
    md = t.metadata(axis=ax)
    if md is None:
        return None
    return [pyify(dict(m)) for m in md]


def md_equal(got, exp):
    """got/exp: None or list of dicts; all-empty == None"""
    def n(x):
        if x is None:
            return None
        x = [O.freeze(d) if d else ('D',) for d in x]
        return None if all(e == ('D',) for e in x) else x
    return n(got) == n(exp)


def check(case, acc, tmp):
    import biom
    from biom import Table, load_table, parse_table
    DATE = DATES[case.get('date', 0)]
    t, exp_md_over = build(case)
    if t is None:
        acc.count('skipped:layout-not-applicable')
        return
    acc.count('prod:' + case['prod'])
    acc.count('layout:' + O.layout_class(t))
    oids, sids = O.ids(t, 'observation'), O.ids(t, 'sample')
    bits = O.dense_bits(t)
    dense = np.asarray(t.matrix_data.toarray(), float)
    emd = {ax: exp_md_over.get(ax, src_md(t, ax)) for ax in ('observation', 'sample')}
    gen = t.generated_by if t.generated_by is not None else 'verif-harness'
    if t.generated_by is not None and case.get('header', 0) != 1:
        gen = gen + ' (as passed to the writer)'      # the argument counts, not what the table was built with
    ttype = t.type
    nontrivial = bool(np.count_nonzero(dense)) or any(
        case.get(k) not in (None, 'plain', 'none', 0) for k in
        ('obs_style', 'samp_style', 'obs_md', 'samp_md', 'header', 'type', 'mdvalue'))
    if nontrivial:
        acc.nontrivial.add(h64(json.dumps(case, sort_keys=True)))

    def bad(sig, detail):
        acc.violation(sig, detail, case)

    # ---- write, both forms
    texts = {}
    for form in ('string', 'direct'):
        acc.trans += 1
        try:
            if form == 'string':
                texts[form] = t.to_json(gen, creation_date=DATE)
            else:
                buf = io.StringIO()
                ret = t.to_json(gen, direct_io=buf, creation_date=DATE)
                texts[form] = buf.getvalue()
        except Exception as e:
            bad('writer-raised:%s:%s' % (form, type(e).__name__), 'to_json(%s) raised %s: %s'
                % (form, type(e).__name__, str(e)[:200]))
    if len(texts) < 2:
        return
    docs = {}
    for form, s in texts.items():
        acc.evals += 1
        try:
            docs[form] = json.loads(s)
        except Exception as e:
            bad('malformed-json:%s' % form, 'json.loads rejects the %s form: %s; text=%r'
                % (form, e, s[:300]))
    if len(docs) < 2:
        return
    acc.count('clause:wellformed')
    if docs['string'] != docs['direct']:
        ks = [k for k in set(docs['string']) | set(docs['direct'])
              if docs['string'].get(k) != docs['direct'].get(k)]
        bad('direct-vs-string', 'the two writer forms are different documents; differing keys %r' % ks)
    acc.count('clause:same-document')
    doc = docs['string']
    P.state(acc, 'doc', texts['string'])
    # ---- independent decode
    try:
        d_oids = tuple(r['id'] for r in doc['rows'])
        d_sids = tuple(c['id'] for c in doc['columns'])
        d_shape = tuple(doc['shape'])
        dd = np.zeros((len(d_oids), len(d_sids)))
        cnt = {}
        if doc.get('matrix_type', 'sparse') == 'sparse':
            for r, c, v in doc['data']:
                if (r, c) in cnt:
                    bad('doc-values:duplicate-coordinate', 'coordinate (%d,%d) written twice' % (r, c))
                cnt[(r, c)] = 1
                dd[r, c] = v
        else:
            dd = np.array(doc['data'], float).reshape(d_shape)
        d_omd = [r['metadata'] for r in doc['rows']]
        d_smd = [c['metadata'] for c in doc['columns']]
    except Exception as e:
        bad('doc-structure', 'document cannot be decoded by hand: %s: %s' % (type(e).__name__, e))
        return
    if d_oids != oids or d_sids != sids:
        bad('doc-ids', 'document ids %r / %r, table ids %r / %r' % (d_oids, d_sids, oids, sids))
    if d_shape != (len(oids), len(sids)):
        bad('doc-shape', 'document shape %r, table is %d x %d' % (d_shape, len(oids), len(sids)))
    elif dd.shape == dense.shape:
        gb = dd.view(np.uint64) if dd.size else dd
        sb = dense.view(np.uint64) if dense.size else dense
        if not np.array_equal(gb, sb):
            i, j = [int(x[0]) for x in np.nonzero(gb != sb)]
            kind = 'dropped' if dd[i, j] == 0 else ('invented' if dense[i, j] == 0 else 'rounded')
            bad('doc-values:' + kind, 'cell (%d,%d): document has %r, table has %r'
                % (i, j, float(dd[i, j]), float(dense[i, j])))
    if not md_equal(d_omd, emd['observation']):
        bad('doc-metadata', 'rows metadata %r, expected %r' % (d_omd, emd['observation']))
    if not md_equal(d_smd, emd['sample']):
        bad('doc-metadata', 'columns metadata %r, expected %r' % (d_smd, emd['sample']))
    if doc.get('type') != ttype:
        bad('doc-type', 'document type %r, table type %r' % (doc.get('type'), ttype))
    if doc.get('generated_by') != gen:
        bad('doc-generated_by', 'document generated_by %r, passed %r' % (doc.get('generated_by'), gen))
    if doc.get('date') != DATE.isoformat():
        bad('doc-date', 'document date %r, passed %r' % (doc.get('date'), DATE.isoformat()))
    acc.count('clause:independent-decode')
    # ---- readers
    path = os.path.join(tmp, 'c02_%016x.biom' % h64(json.dumps(case, sort_keys=True)))
    with open(path, 'w', encoding='utf-8') as fh:
        fh.write(texts['string'])
    gz = path + '.gz'
    with gzip.open(gz, 'wt', encoding='utf-8') as fh:
        fh.write(texts['direct'])
    for rd in READERS:
        acc.trans += 1
        acc.evals += 1
        try:
            if rd == 'load_path':
                r = load_table(path)
            elif rd == 'load_gz':
                r = load_table(gz)
            elif rd == 'parse_handle':
                with open(path, encoding='utf-8') as fh:
                    r = parse_table(fh)
            elif rd == 'parse_lines':
                r = parse_table(texts['string'].splitlines(True))
            elif rd == 'parse_lines_noends':
                # the usual "list of lines" of a text that was read whole: no terminators
                r = parse_table(texts['direct'].splitlines())
            else:
                r = Table.from_json(json.loads(texts['direct']))
        except Exception as e:
            bad('reader-raised:%s' % type(e).__name__, '%s raised %s: %s' % (rd, type(e).__name__, str(e)[:200]))
            continue
        acc.count('reader:' + rd)
        P.state(acc, 'read', rd, O.content_key(r))
        acc.outcomes.add(O.content_key(r))
        if O.ids(r, 'observation') != oids or O.ids(r, 'sample') != sids:
            bad('read-ids', '%s: ids %r / %r, expected %r / %r'
                % (rd, O.ids(r, 'observation'), O.ids(r, 'sample'), oids, sids))
            continue
        if O.dense_bits(r) != bits:
            bad('read-values', '%s: matrix %r, expected %r' % (rd, r.matrix_data.toarray().tolist(),
                                                                 dense.tolist()))
        for ax in ('observation', 'sample'):
            if not md_equal(src_md(r, ax), emd[ax]):
                bad('read-metadata', '%s: %s metadata %r, expected %r' % (rd, ax, src_md(r, ax), emd[ax]))
        if r.type != ttype:
            bad('read-type', '%s: type %r, expected %r' % (rd, r.type, ttype))
        if r.generated_by != gen:
            bad('read-generated_by', '%s: generated_by %r, expected %r' % (rd, r.generated_by, gen))
        if r.create_date != DATE:
            bad('read-date', '%s: create_date %r, expected %r' % (rd, r.create_date, DATE))
        # the table just read is a table like any other: written again (both forms) it gives the same document
        acc.evals += 1
        try:
            s2 = r.to_json(gen, creation_date=DATE)
            buf2 = io.StringIO()
            r.to_json(gen, direct_io=buf2, creation_date=DATE)
            d2, d3 = json.loads(s2), json.loads(buf2.getvalue())
        except Exception as e:
            bad('second-generation:raised:%s' % type(e).__name__, 'the table read by %s cannot be written again: %s: %s'
                % (rd, type(e).__name__, str(e)[:200]))
            continue
        if d2 != d3:
            bad('second-generation:direct-vs-string', 'second write of the table read by %s: the two forms differ' % rd)
        elif _listed(d2) != _listed(doc):
            diffk = sorted(k for k in _listed(doc) if _listed(d2).get(k) != _listed(doc).get(k))
            bad('second-generation:document', 'second write of the table read by %s differs from the first document in %r'
                % (rd, diffk))
        else:
            acc.count('clause:second-generation')
    os.unlink(path)
    os.unlink(gz)


def _listed(doc):
    """the parts of a document the property lists (ids, metadata, type, generated-by, date, values)"""
    out = {k: doc.get(k) for k in ('rows', 'columns', 'shape', 'type', 'generated_by', 'date')}
    try:
        out['data'] = sorted((int(e[0]), int(e[1]), float(e[2])) for e in doc.get('data', []))
    except Exception:
        out['data'] = doc.get('data')
    return out


# ----------------------------------------------------------------------------- histories
def history_roundtrip(t, m, report):
    """"whatever operation history produced the table": in every state the history explorer reaches, both
    writer forms must be the same well-formed document and read back to the table's content"""
    from biom import Table
    dense = np.asarray(t.matrix_data.toarray(), float)
    if not np.isfinite(dense).all():
        return
    oids, sids, bits = O.ids(t, 'observation'), O.ids(t, 'sample'), O.dense_bits(t)
    emd = {ax: src_md(t, ax) for ax in ('observation', 'sample')}
    ttype = t.type
    try:
        s1 = t.to_json('verif', creation_date=DATE)
        buf = io.StringIO()
        t.to_json('verif', direct_io=buf, creation_date=DATE)
    except Exception as e:
        report('history:writer-raised:' + type(e).__name__, 'to_json raised %s: %s' % (type(e).__name__, e))
        return
    try:
        d1, d2 = json.loads(s1), json.loads(buf.getvalue())
    except Exception as e:
        report('history:malformed-json', 'json.loads rejects the text: %s' % e)
        return
    if d1 != d2:
        report('history:direct-vs-string', 'the two writer forms are different documents')
        return
    try:
        r = Table.from_json(d1)
    except Exception as e:
        report('history:reader-raised:' + type(e).__name__, 'from_json raised %s: %s' % (type(e).__name__, e))
        return
    if O.ids(r, 'observation') != oids or O.ids(r, 'sample') != sids:
        report('history:read-ids', 'ids %r / %r, expected %r / %r' % (O.ids(r, 'observation'), O.ids(r, 'sample'), oids, sids))
    elif O.dense_bits(r) != bits:
        report('history:read-values', 'matrix %r, expected %r' % (r.matrix_data.toarray().tolist(), dense.tolist()))
    elif not (md_equal(src_md(r, 'observation'), emd['observation']) and md_equal(src_md(r, 'sample'), emd['sample'])):
        report('history:read-metadata', 'metadata %r / %r, expected %r / %r'
               % (src_md(r, 'observation'), src_md(r, 'sample'), emd['observation'], emd['sample']))
    elif r.type != ttype:
        report('history:read-type', 'type %r, expected %r' % (r.type, ttype))
    else:
        report.count('clause:history-roundtrip')
        try:
            d3 = json.loads(r.to_json('verif', creation_date=DATE))
        except Exception as e:
            report('history:second-generation:raised:' + type(e).__name__, 'the table read back cannot be written '
                   'again: %s: %s' % (type(e).__name__, e))
            return
        if _listed(d3) != _listed(d1):
            report('history:second-generation:document', 'second write differs from the first in %r'
                   % sorted(k for k in _listed(d1) if _listed(d3).get(k) != _listed(d1).get(k)))


def history_spec(depth):
    from .. import explorer as E
    from .. import ops as OPS
    return E.Spec(OPS.start_tables(), OPS.all_ops(), depth, check_ops=(), on_state=history_roundtrip,
                  label='histories-d%d' % depth)


def run(run):
    from .. import explorer as E
    cs = cases(run.tier, run.seed)
    P.run_cases(run, cs, check)
    E.explore(run, history_spec(2 if run.quick else 3))
    run.extra['products'] = {k[5:]: v for k, v in run.acc.counters.items() if k.startswith('prod:')}
    run.extra['bound'] = {'shapes': D.shapes(run.tier), 'layouts': D.LAYOUTS, 'readers': READERS,
                          'metadata_values': len(md_values(run.tier))}
    vacuity(run, ['clause:history-roundtrip', 'clause:wellformed', 'clause:same-document', 'clause:independent-decode'] +
            ['reader:' + r for r in READERS] + ['prod:A', 'prod:B-ids', 'prod:B-md', 'prod:C', 'prod:V', 'prod:E', 'prod:Z',
                                                   'clause:second-generation'])
    run.assumptions += ['stdlib json/gzip are the independent decoder',
                        'creation_date is passed explicitly (the writer otherwise calls datetime.now())']


def replay(case):
    if 'history' in case:
        from .. import explorer as E
        return E.replay_history(history_spec(len(case['history'])), case)
    return P.replay_case(check, case)
