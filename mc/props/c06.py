"""C06 – reordering, transposing, copying and renaming keep every value with its IDs.

Part 1 (E2): for every table (all masks of the tier's shapes, distinct value per cell,
distinct metadata per id) x layout prefix: all permutations of each axis through
sort_order (and the inverse permutation afterwards), sort with the natural and two custom
orders, align_to for every permuted partner x axis mode (and partners with unequal id
sets), transpose (twice), copy, update_ids over all injective renamings from a 5-name
pool (strict), all partial renamings (strict=False), colliding renamings (must be refused,
receiver unchanged), in place or not.
Part 2 (E1): the reorder/rename/transpose/copy/align operations judged against the model
after every operation history of bounded depth.
"""
import itertools

import numpy as np

from .. import explorer as E
from .. import model as MD
from .. import observe as O
from .. import ops as OPS
from .. import pipeline as P
from ..compare import diff
from ..core import h64, vacuity
from ..model import M, ModelRefuse

LEVEL = 'model_checking'
RULE = ('part 1: every sparsity mask of every shape of the tier (distinct values per cell, distinct '
        'metadata per id) x layout prefix x {all axis permutations + inverse, sort x 3 orders, '
        'align_to x all permuted partners x 4 axis modes + unequal id sets, transpose, copy, all '
        'injective strict renamings from a 5-name pool, all partial and colliding renamings}; '
        'non-trivial = table with a non-zero cell, distinct by (shape, mask, layout). part 2: BFS over '
        'histories with the reorder ops judged against the dense model')

OID = ['obs_10', 'obs_9', 'o2', 'obs_1']     # wider than every sample id and than most rename targets
SID = ['s2', 's10', 's3', 's1']
POOL = ['a', 'bb', 'obs_9', 'a_very_long_identifier_x', 'ü']     # 'obs_9' is also an id of the table
LAYOUTS = ['csr', 'csc', 'unsorted']
REORDER_OPS = ('sort', 'rev', 'rot', 'transpose', 'copy', 'align', 'align_detect', 'rename_long',
               'rename_partial', 'rename_swap', 'rename_rot')


def make(case):
    from biom import Table
    N, Mm = case['shape']
    vals = []
    k = 0
    for i in range(N):
        row = []
        for j in range(Mm):
            bit = (case['mask'] >> (i * Mm + j)) & 1
            row.append((1.0 + k) * (0.5 if k % 3 == 2 else 1.0) if bit else 0.0)
            k += 1
        vals.append(row)
    D = np.array(vals, float).reshape(N, Mm)
    oids, sids = OID[:N], SID[:Mm]
    if case.get('same_ids'):
        # a co-occurrence style table: the same labels on both axes
        oids = sids = ['g2', 'g10', 'g3', 'g1'][:N]
    omd = [{'tax': 't_' + i, 'n': k} for k, i in enumerate(oids)] if case.get('md', True) else None
    smd = [{'site': 'x_' + i} for i in sids] if case.get('md', True) else None
    cp = (lambda x: None if x is None else [dict(e) for e in x])
    lay = case['layout']
    if case.get('idarr'):
        # the caller hands the ids over as numpy arrays of Python objects (what pandas' index.values gives)
        t = Table(D, np.array(oids, dtype=object), np.array(sids, dtype=object), cp(omd), cp(smd), type='OTU table')
    elif lay in ('csr', 'csc'):
        t = Table(D, oids, sids, cp(omd), cp(smd), type='OTU table')
        if lay == 'csc':
            t.data(sids[0], 'sample')
    else:
        t = Table(D[:, ::-1], oids, sids[::-1], cp(omd), None if smd is None else cp(smd[::-1]),
                  type='OTU table')
        t = t.sort_order(sids, axis='sample')
        t.type = 'OTU table'
    return t, M(oids, sids, D.tolist(), omd, smd, 'OTU table')


def cases(tier, seed):
    shapes = [(1, 2), (2, 2), (2, 3), (3, 2), (3, 3)]
    out = []
    for sh in shapes:
        n = sh[0] * sh[1]
        masks = range(1 << n) if (tier == 'thorough' or n <= 6) else \
            [m for m in range(1 << n) if bin(m).count('1') in (0, 1, 2, n - 1, n) or m % 7 == seed % 7]
        for mask in masks:
            for lay in LAYOUTS:
                out.append({'shape': list(sh), 'mask': mask, 'layout': lay, 'md': True})
    for sh, mask in (((2, 3), 0b101101), ((3, 3), 0b110011101), ((3, 2), 0b111111)):
        out.append({'shape': list(sh), 'mask': mask, 'layout': 'csr', 'md': True, 'idarr': True})
    # an axis without any id (the other axis keeps its ids and metadata)
    for sh in ((0, 2), (2, 0), (0, 3), (0, 0)):
        out.append({'shape': list(sh), 'mask': 0, 'layout': 'csr', 'md': True})
    for sh in ((2, 2), (3, 3)):
        n = sh[0] * sh[1]
        for mask in ((1 << n) - 1, 0b101101011 & ((1 << n) - 1), 0b011010110 & ((1 << n) - 1)):
            for lay in LAYOUTS:
                out.append({'shape': list(sh), 'mask': mask, 'layout': lay, 'md': True, 'same_ids': True})
    for sh in ([(4, 2), (2, 4)] if tier == 'quick' else [(4, 2), (2, 4), (4, 3), (3, 4)]):
        n = sh[0] * sh[1]
        for mask in ((1 << n) - 1, 0b10110101 & ((1 << n) - 1), 0b011011100110 & ((1 << n) - 1)):
            for lay in LAYOUTS:
                for md in (True, False):
                    out.append({'shape': list(sh), 'mask': mask, 'layout': lay, 'md': md})
    return out


def check(case, acc, tmp):
    from biom.exception import DisjointIDError
    t0, m0 = make(case)
    if case['mask']:
        acc.nontrivial.add(h64((tuple(case['shape']), case['mask'], case['layout'], case['md'], case.get('same_ids'),
                                case.get('idarr'))))
    acc.count('layout:' + O.layout_class(t0))
    P.state(acc, 'src', O.concrete_key(t0))
    start = m0.content()

    def bad(sig, detail, **kw):
        c = dict(case)
        c.update(kw)
        acc.violation(sig, detail, c)

    def judge(r, exp, what, ignore_type=False, **kw):
        acc.evals += 1
        d = diff(r, exp, ignore_type=ignore_type, by_id=True)
        if d is not None:
            bad(what, '%s: %s' % (what, d), **kw)
            return False
        acc.outcomes.add(O.content_key(r))
        acc.count('clause:' + what.split(':')[0])
        return True

    for ax in ('observation', 'sample'):
        ids = m0.ids(ax)
        # ---- all permutations, then the inverse
        for perm in itertools.permutations(range(len(ids))):
            order = [ids[k] for k in perm]
            t, _ = make(case)
            acc.trans += 2
            try:
                r = t.sort_order(order, axis=ax)
                back = r.sort_order(ids, axis=ax)
            except Exception as e:
                bad('sort_order:raised', 'sort_order(%r) raised %s: %s' % (order, type(e).__name__, e),
                    axis=ax, order=order)
                continue
            judge(r, m0.sort_order(ax, order), 'sort_order:result', axis=ax, order=order)
            acc.evals += 1
            if diff(back, m0) is not None:
                bad('sort_order:inverse', 'permutation %r then its inverse: %s' % (order, diff(back, m0)),
                    axis=ax, order=order)
            else:
                acc.count('clause:involution')
        # ---- sort with three orders
        for name, f, key in (('natsort', None, MD.natkey),
                             ('reverse', lambda x: sorted(x, reverse=True), None),
                             ('bylen', lambda x: sorted(x, key=lambda s: (len(s), s)), None)):
            t, _ = make(case)
            acc.trans += 1
            try:
                r = t.sort(axis=ax) if f is None else t.sort(sort_f=f, axis=ax)
            except Exception as e:
                bad('sort:raised', 'sort(%s) raised %s: %s' % (name, type(e).__name__, e), axis=ax, sortf=name)
                continue
            if f is None:
                order = sorted(ids, key=key)
            else:
                order = list(f(list(ids)))
            judge(r, m0.sort_order(ax, order), 'sort:result', axis=ax, sortf=name)
        # ---- renamings
        n = len(ids)
        for inpl in (False, True):
            for targets in itertools.permutations(POOL, n):
                mp = dict(zip(ids, targets))
                t, _ = make(case)
                acc.trans += 1
                try:
                    r = t.update_ids(dict(mp), axis=ax, strict=True, inplace=inpl)
                except Exception as e:
                    bad('update_ids:raised', 'strict renaming %r raised %s: %s' % (mp, type(e).__name__, e),
                        axis=ax, mapping=mp, inplace=inpl)
                    continue
                if not judge(r, m0.update_ids(ax, mp, True), 'update_ids:strict', axis=ax, mapping=mp,
                             inplace=inpl):
                    continue
                inv = {v: k for k, v in mp.items()}
                acc.trans += 1
                try:
                    back = r.update_ids(inv, axis=ax, strict=True, inplace=False)
                    if diff(back, m0) is not None:
                        bad('update_ids:inverse', 'rename %r then inverse: %s' % (mp, diff(back, m0)),
                            axis=ax, mapping=mp, inplace=inpl)
                except Exception as e:
                    bad('update_ids:raised', 'inverse renaming raised %s: %s' % (type(e).__name__, e),
                        axis=ax, mapping=mp, inplace=inpl)
            # renamings onto the axis' own ids (swaps, rotations, chains): every permutation
            for perm in itertools.permutations(range(n)):
                mp = {ids[k]: ids[perm[k]] for k in range(n)}
                for strict_flag in (True, False):
                    t, _ = make(case)
                    acc.trans += 1
                    try:
                        r = t.update_ids(dict(mp), axis=ax, strict=strict_flag, inplace=inpl)
                    except Exception as e:
                        bad('update_ids:raised', 'permutation renaming %r raised %s: %s' % (mp, type(e).__name__, e),
                            axis=ax, mapping=mp, inplace=inpl)
                        continue
                    judge(r, m0.update_ids(ax, mp, True), 'update_ids:permutation', axis=ax, mapping=mp,
                          inplace=inpl, strict=strict_flag)
            # partial renamings, strict=False (incl. an unknown key), and the empty mapping
            for r_ in range(0, n):
                for sub in itertools.combinations(ids, r_):
                    for targets in itertools.permutations(POOL[:4], len(sub)):
                        mp = dict(zip(sub, targets))
                        mp_full = dict(mp)
                        if sub:
                            mp_full['not_an_id'] = 'zzz'
                        t, _ = make(case)
                        before = O.content(t)
                        acc.trans += 1
                        try:
                            exp = m0.update_ids(ax, mp_full, False)
                        except ModelRefuse:
                            exp = None
                        try:
                            r = t.update_ids(dict(mp_full), axis=ax, strict=False, inplace=inpl)
                        except Exception as e:
                            acc.evals += 1
                            if exp is not None:
                                bad('update_ids:raised' + (':empty-mapping' if not mp_full else ''),
                                    'partial renaming %r (strict=False) raised %s: %s'
                                    % (mp_full, type(e).__name__, e), axis=ax, mapping=mp_full, inplace=inpl)
                            elif O.content(t) != before:
                                bad('update_ids:refused-but-changed', 'refused renaming %r changed the receiver'
                                    % mp_full, axis=ax, mapping=mp_full, inplace=inpl)
                            else:
                                acc.count('clause:collision-refused')
                            continue
                        if exp is None:
                            acc.evals += 1
                            bad('update_ids:duplicate-accepted', 'renaming %r creates duplicate ids but was '
                                'accepted: %r' % (mp_full, O.ids(r, ax)), axis=ax, mapping=mp_full, inplace=inpl)
                            continue
                        judge(r, exp, 'update_ids:partial', axis=ax, mapping=mp_full, inplace=inpl)
            # strict renaming that misses an id must be refused
            if n >= 2:
                mp = {ids[0]: 'a'}
                t, _ = make(case)
                before = O.content(t)
                acc.trans += 1
                acc.evals += 1
                try:
                    t.update_ids(mp, axis=ax, strict=True, inplace=inpl)
                    bad('update_ids:strict-incomplete-accepted', 'strict renaming %r misses ids but was accepted'
                        % mp, axis=ax, mapping=mp, inplace=inpl)
                except Exception:
                    if O.content(t) != before:
                        bad('update_ids:refused-but-changed', 'refused strict renaming changed the receiver',
                            axis=ax, mapping=mp, inplace=inpl)
                    else:
                        acc.count('clause:strict-refused')
    # ---- align_to: every permuted partner x axis mode
    N, Mm = case['shape']
    perms_o = list(itertools.permutations(range(N)))
    perms_s = list(itertools.permutations(range(Mm)))
    if len(perms_o) * len(perms_s) > 36:
        perms_o = perms_o[::max(1, len(perms_o) // 6)] if len(perms_o) > 6 else perms_o
        perms_s = perms_s[::max(1, len(perms_s) // 6)] if len(perms_s) > 6 else perms_s
        acc.notes.add('align_to partners for axes of length 4: every 4th permutation of that axis (all for <=3)')
    for po in perms_o:
        for ps in perms_s:
            oo = [m0.o[k] for k in po]
            so = [m0.c[k] for k in ps]
            for mode in ('sample', 'observation', 'both', 'detect'):
                t, _ = make(case)
                other, _ = make(case)
                other = other.sort_order(oo, axis='observation').sort_order(so, axis='sample')
                # make the partner's values irrelevant
                other.transform(lambda v, i, md: v * 0 + 1, inplace=True)
                acc.trans += 1
                try:
                    r = t.align_to(other, axis=mode)
                except Exception as e:
                    bad('align_to:raised', 'align_to(axis=%s) raised %s: %s' % (mode, type(e).__name__, e),
                        mode=mode, obs_order=oo, samp_order=so)
                    continue
                exp = m0
                if mode in ('observation', 'both', 'detect'):
                    exp = exp.sort_order('observation', oo)
                if mode in ('sample', 'both', 'detect'):
                    exp = exp.sort_order('sample', so)
                judge(r, exp, 'align_to:result', mode=mode, obs_order=oo, samp_order=so)
    # partner with unequal id sets
    for which in ('sample', 'observation'):
        t, _ = make(case)
        other, mo = make(case)
        if not mo.ids(which):
            continue        # no id to rename away on an empty axis
        first = mo.ids(which)[0]
        other = other.update_ids({first: 'renamed_away'}, axis=which, strict=False, inplace=False)
        for mode in ('sample', 'observation', 'both', 'detect'):
            alignable = {'sample': which != 'sample', 'observation': which != 'observation',
                         'both': False, 'detect': True}[mode]
            acc.trans += 1
            acc.evals += 1
            try:
                r = t.align_to(other, axis=mode)
                if not alignable:
                    bad('align_to:unequal-accepted', 'align_to(axis=%s) accepted a partner whose %s ids differ'
                        % (mode, which), mode=mode, differing=which)
                else:
                    exp_order = O.ids(r, 'observation'), O.ids(r, 'sample')
                    if diff(r, m0) is not None:
                        bad('align_to:result', 'identity alignment changed the table: %s' % diff(r, m0),
                            mode=mode, differing=which)
            except DisjointIDError:
                if alignable:
                    bad('align_to:raised', 'align_to(axis=%s) refused although the %s axis is alignable'
                        % (mode, 'sample' if which == 'observation' else 'observation'), mode=mode, differing=which)
                else:
                    acc.count('clause:align-refused')
            except Exception as e:
                bad('align_to:raised', 'align_to raised %s: %s' % (type(e).__name__, e), mode=mode, differing=which)
    # ---- transpose, copy
    t, _ = make(case)
    acc.trans += 3
    try:
        r = t.transpose()
        judge(r, m0.T(), 'transpose:result', ignore_type=True)
        rr = r.transpose()
        acc.evals += 1
        if diff(rr, m0, ignore_type=True) is not None:
            bad('transpose:twice', 'transpose twice: %s' % diff(rr, m0, ignore_type=True))
        else:
            acc.count('clause:involution')
        c = t.copy()
        judge(c, m0, 'copy:result')
    except Exception as e:
        bad('transpose:raised', 'transpose/copy raised %s: %s' % (type(e).__name__, e))
    if O.content(t) != start and diff(t, m0) is not None:
        bad('receiver-changed', 'the source table changed: %s' % diff(t, m0))


def spec(depth):
    allops = OPS.all_ops()
    last = [o for o in allops if o[0] in REORDER_OPS]
    return E.Spec(OPS.start_tables(), allops, depth, check_ops=REORDER_OPS, last_level_ops=last,
                  label='histories-d%d' % depth, by_id=True)


def run(run):
    cs = cases(run.tier, run.seed)
    P.run_cases(run, cs, check, nchunks=256)
    depth = 2 if run.quick else 3
    info = E.explore(run, spec(depth))
    run.extra['bound'] = {'part1_cases': len(cs), 'layouts': LAYOUTS, 'rename_pool': POOL,
                          'shapes': sorted({tuple(c['shape']) for c in cs}),
                          'part2_depth': info['depth_completed']}
    vacuity(run, ['clause:sort_order', 'clause:involution', 'clause:sort', 'clause:update_ids',
                  'clause:collision-refused', 'clause:strict-refused', 'clause:align_to',
                  'clause:align-refused', 'clause:transpose', 'clause:copy'] +
            ['op:' + o for o in REORDER_OPS])


def replay(case):
    if 'history' in case:
        return E.replay_history(spec(len(case['history'])), case)
    base = {k: case[k] for k in ('shape', 'mask', 'layout', 'md', 'same_ids') if k in case}
    return P.replay_case(check, base)
