"""C05 – a table stays internally coherent after every sequence of operations.

Engine E1.  Every history over the full operation alphabet up to the depth bound, from
five start tables; in every distinct concrete state reached the coherence invariant and
the agreement of all accessors on one matrix are evaluated.  The model only follows the
implementation here (no op is judged against the model: that is C06/C08/C09…'s job).
"""
import numpy as np

from .. import explorer as E
from .. import ops as OPS
from ..core import vacuity

LEVEL = 'model_checking'
RULE = ('explicit-state BFS over operation histories on the real Table: every op of the alphabet '
        'applied in every distinct concrete state (sparse layout, index dicts, ids, metadata) '
        'reached within the depth bound; a transition is non-trivial when the op executed and '
        'changed the concrete state, counted distinct by (source state, op)')

POOL = ['s1', 's2', 's3', 'x', 'y', 'q', 'first', 'zz', 'unknown', 'o2', 'o9', 'o10', 'a', 'b', 'c',
        'p', 'o1', 'd1', 'e1', 'q1', 'yy', 'nope', 's1_L', 'o9_L', '1', 'u']


def _close(a, b, scale=0.0):
    """equal up to summation order: relative 1e-12, plus 1e-12 of the magnitude that was summed (a sum of
    values that cancel is only determined up to the rounding of its terms)"""
    return np.allclose(np.asarray(a, float), np.asarray(b, float), rtol=1e-12, atol=1e-12 * scale, equal_nan=True)


def coherent(t, m, report):
    from biom.exception import UnknownIDError
    oids = [str(i) for i in t.ids('observation')]
    sids = [str(i) for i in t.ids('sample')]
    N, Mm = len(oids), len(sids)
    if tuple(t.shape) != (N, Mm):
        report('shape-vs-ids', 'shape %r but %d observation ids, %d sample ids' % (t.shape, N, Mm))
        return
    if tuple(t.matrix_data.shape) != (N, Mm):
        report('shape-vs-ids', 'matrix_data.shape %r but %d x %d ids' % (t.matrix_data.shape, N, Mm))
        return
    for ax, ids in (('observation', oids), ('sample', sids)):
        if len(set(ids)) != len(ids):
            report('duplicate-ids', '%s ids %r' % (ax, ids))
            return
        for k, i in enumerate(ids):
            try:
                got = t.index(i, ax)
            except Exception as e:
                report('index-lookup', 'index(%r,%s) raised %s' % (i, ax, type(e).__name__))
                return
            if got != k:
                report('index-lookup', 'index(%r,%s)=%r, position is %d' % (i, ax, got, k))
                return
            if not t.exists(i, ax):
                report('index-lookup', 'exists(%r,%s) is False for a current id' % (i, ax))
                return
        cur = set(ids)
        for u in POOL:
            if u in cur:
                continue
            if t.exists(u, ax):
                report('stale-lookup', 'exists(%r,%s) is True but the id is not on the axis %r'
                       % (u, ax, ids))
                return
            try:
                t.index(u, ax)
                report('stale-lookup', 'index(%r,%s) did not raise for an unknown id' % (u, ax))
                return
            except UnknownIDError:
                pass
        idx = t._obs_index if ax == 'observation' else t._sample_index
        if len(idx) != len(ids):
            report('stale-lookup', '%s lookup has %d entries for %d ids' % (ax, len(idx), len(ids)))
            return
        md = t.metadata(axis=ax)
        if md is not None:
            if len(md) != len(ids):
                report('metadata-length', '%s metadata has %d entries for %d ids'
                       % (ax, len(md), len(ids)))
                return
            for k, e in enumerate(md):
                if not hasattr(e, 'keys'):
                    report('metadata-length', '%s metadata entry %d is %r' % (ax, k, e))
                    return
                if t.metadata(ids[k], ax) is not e and dict(t.metadata(ids[k], ax)) != dict(e):
                    report('metadata-length', 'metadata(%r,%s) is not entry %d' % (ids[k], ax, k))
                    return
    # ---------------------------------------------------------- accessor agreement
    D = np.asarray(t.copy().matrix_data.toarray(), dtype=float)
    if D.shape != (N, Mm):
        report('copy-shape', 'copy().matrix_data has shape %r' % (D.shape,))
        return

    def vec(ax, k):
        return D[k, :] if ax == 'observation' else D[:, k]
    nzD = int(np.count_nonzero(D))
    bad = None
    # every accessor converts the stored layout as a side effect, so only the first one sees the layout the
    # history left behind: which accessor (and which axis) goes first rotates with the concrete state
    from .. import observe as O
    rot = O.concrete_key(t) % 8
    if N and Mm:
        if rot == 0:
            nz0 = sorted((str(o), str(s)) for o, s in t.nonzero())
            if nz0 != sorted((oids[a], sids[b]) for a in range(N) for b in range(Mm) if D[a, b] != 0):
                bad = ('nonzero', 'nonzero() as the first access after the history lists %r' % (nz0,))
        elif rot == 1:
            if not np.array_equal(np.asarray(t.sum('sample'), float), D.sum(axis=0)) and \
                    not _close(t.sum('sample'), D.sum(axis=0), float(np.abs(D).sum())):
                bad = ('sum', 'sum(sample) as the first access after the history: %r' % (list(t.sum('sample')),))
        elif rot == 2:
            g0 = [[float(t.get_value_by_ids(o, s)) for s in sids] for o in oids]
            if not np.array_equal(np.asarray(g0, float), D):
                bad = ('get_value_by_ids', 'get_value_by_ids as the first access after the history: %r' % (g0,))
        elif rot == 3:
            for (v1, i1, _), (v2, i2, _) in t.iter_pairwise(axis='sample'):
                if not np.array_equal(np.asarray(v1, float), D[:, sids.index(str(i1))]) or \
                        not np.array_equal(np.asarray(v2, float), D[:, sids.index(str(i2))]):
                    bad = ('iter_pairwise', 'iter_pairwise(sample) as the first access after the history disagrees')
    axes_order = (('observation', oids), ('sample', sids)) if rot % 2 == 0 else (('sample', sids), ('observation', oids))
    if N and Mm:
        for ax, ids in axes_order:
            for k, i in enumerate(ids):
                v = t.data(i, ax, dense=True)
                if not np.array_equal(np.asarray(v, float), vec(ax, k)):
                    bad = ('data', 'data(%r,%s)=%r, matrix says %r' % (i, ax, list(v), list(vec(ax, k))))
                sv = t.data(i, ax, dense=False)
                if not np.array_equal(np.asarray(sv.toarray()).ravel(), vec(ax, k)):
                    bad = ('data', 'data(%r,%s,dense=False) disagrees' % (i, ax))
            got = [(str(i), np.asarray(v, float).copy()) for v, i, md in t.iter(axis=ax)]
            if [g[0] for g in got] != ids or any(not np.array_equal(g[1], vec(ax, k))
                                                 for k, g in enumerate(got)):
                bad = ('iter', 'iter(axis=%s) yields %r' % (ax, [(g[0], list(g[1])) for g in got]))
            got = [(str(i), np.asarray(v.toarray()).ravel()) for v, i, md in t.iter(axis=ax, dense=False)]
            if [g[0] for g in got] != ids or any(not np.array_equal(g[1], vec(ax, k))
                                                 for k, g in enumerate(got)):
                bad = ('iter', 'iter(axis=%s,dense=False) disagrees' % ax)
            got = [np.asarray(v, float).copy() for v in t.iter_data(axis=ax)]
            if len(got) != len(ids) or any(not np.array_equal(g, vec(ax, k)) for k, g in enumerate(got)):
                bad = ('iter', 'iter_data(axis=%s) disagrees' % ax)
            pairs = list(t.iter_pairwise(axis=ax))
            exp_pairs = [(a, b) for a in range(len(ids)) for b in range(a + 1, len(ids))]
            gp = []
            for (v1, i1, _), (v2, i2, _) in pairs:
                gp.append((str(i1), str(i2)))
                if not np.array_equal(np.asarray(v1, float), vec(ax, ids.index(str(i1)))) or \
                        not np.array_equal(np.asarray(v2, float), vec(ax, ids.index(str(i2)))):
                    bad = ('iter_pairwise', 'iter_pairwise(%s) vectors of (%s,%s) disagree' % (ax, i1, i2))
            if gp != [(ids[a], ids[b]) for a, b in exp_pairs]:
                bad = ('iter_pairwise', 'iter_pairwise(%s) pairs %r' % (ax, gp))
        # two live iterators, advanced in lock-step (a read on one axis must not disturb the other)
        k = 0
        for (vo, io, _), (vs, is_, _) in zip(t.iter(axis='observation'), t.iter(axis='sample')):
            if str(io) != oids[k] or str(is_) != sids[k] or \
                    not np.array_equal(np.asarray(vo, float), D[k, :]) or \
                    not np.array_equal(np.asarray(vs, float), D[:, k]):
                bad = ('iter-interleaved', 'interleaved iteration, step %d: observation %s -> %r, sample %s -> %r; '
                       'matrix says %r / %r' % (k, io, list(vo), is_, list(vs), list(D[k, :]), list(D[:, k])))
            k += 1
        for a, o in enumerate(oids):
            for b, s in enumerate(sids):
                g = t.get_value_by_ids(o, s)
                if g != D[a, b]:
                    bad = ('get_value_by_ids', 'get_value_by_ids(%r,%r)=%r, matrix says %r' % (o, s, g, D[a, b]))
        nz = [(str(o), str(s)) for o, s in t.nonzero()]
        exp = [(oids[a], sids[b]) for a in range(N) for b in range(Mm) if D[a, b] != 0]
        if sorted(nz) != sorted(exp) or len(nz) != len(exp):
            bad = ('nonzero', 'nonzero() lists %r, matrix has %r' % (nz, exp))
        dens = t.get_table_density()
        if not _close(dens, nzD / float(N * Mm)):
            bad = ('density', 'get_table_density()=%r, matrix says %r' % (dens, nzD / float(N * Mm)))
    mag = float(np.abs(D).sum()) if D.size else 0.0
    if not _close(t.sum('whole'), D.sum(), mag) or \
            not (_close(t.sum('sample'), D.sum(axis=0), mag) and len(t.sum('sample')) == Mm) or \
            not (_close(t.sum('observation'), D.sum(axis=1), mag) and len(t.sum('observation')) == N):
        bad = ('sum', 'sum(whole/sample/observation)=%r/%r/%r, matrix says %r/%r/%r'
               % (t.sum('whole'), list(t.sum('sample')), list(t.sum('observation')),
                  D.sum(), list(D.sum(axis=0)), list(D.sum(axis=1))))
    if t.nnz != nzD:
        bad = ('nnz', 'nnz=%r, matrix has %d non-zero cells' % (t.nnz, nzD))
    if bad is not None:
        report('accessor:' + bad[0], bad[1])


def _mutate_inplace(x):
    # first a renaming that keeps every id's width (an implementation may then write into the id array it has)
    for ax in ('observation', 'sample'):
        ids = [str(i) for i in x.ids(ax)]
        new = {i: i.swapcase() for i in ids}
        if ids and len(set(new.values())) == len(ids) and all(k != v for k, v in new.items()):
            try:
                x.update_ids(new, axis=ax, inplace=True)
            except Exception:
                pass
    for ax in ('observation', 'sample'):
        ids = list(x.ids(ax))
        if ids:
            try:
                x.filter([ids[0]], axis=ax, invert=True, inplace=True)
            except Exception:
                pass
    for ax in ('observation', 'sample'):
        ids = list(x.ids(ax))
        if ids:
            try:
                x.update_ids({i: str(i) + '_z' for i in ids}, axis=ax, inplace=True)
                x.add_metadata({str(ids[0]) + '_z': {'zz': 1}}, ax)
            except Exception:
                pass
    try:
        x.remove_empty(inplace=True)
    except Exception:
        pass


def two_tables(tr, report):
    """histories over two live tables: after an operation that returns a new table, in-place operations on
    the derived table must leave the original coherent, and vice versa"""
    if tr.raised or tr.inplace is not False or tr.res is None:
        return
    for direction in ('derived-mutated', 'original-mutated'):
        t2, m2 = tr.rebuild()
        try:
            r2 = OPS.apply(tr.op, t2, m2, False).t
        except Exception:
            return
        if r2 is None or r2 is t2:
            return
        victim, mutated = (t2, r2) if direction == 'derived-mutated' else (r2, t2)
        _mutate_inplace(mutated)
        coherent(victim, None, lambda sig, detail: report('two-tables:' + sig, '%s after %s: %s'
                                                           % (direction, E.opname(tr.op), detail)))


def spec(depth, ops=None, two=True, starts=None):
    return E.Spec(starts if starts is not None else OPS.start_tables(), ops if ops is not None else OPS.all_ops(), depth,
                  check_ops=(), on_state=coherent, on_transition=two_tables if two else None,
                  label='d%d' % depth)


def inplace_ops():
    keep = []
    for op in OPS.all_ops():
        if op[0] in ('add_md', 'del_md', 'del_md_all', 'del_md_whole', 'nnz', 'col', 'row', 'iter', 'eq',
                     'rev', 'rot', 'sort', 'transpose'):
            keep.append(op)
        elif len(op) >= 2 and op[-1] is True and op[0] not in ('pa',):
            keep.append(op)
        elif op == ('pa', True):
            keep.append(op)
    return keep


def run(run):
    d = 2 if run.quick else 3
    info = E.explore(run, spec(d))
    sub = inplace_ops()
    d2 = 3 if run.quick else 4
    sp2 = spec(d2, sub, two=not run.quick)      # quick: the two-table oracle runs on the full alphabet only
    sp2.label = 'inplace-d%d' % d2
    info2 = E.explore(run, sp2)
    if not run.quick:
        # tables that were read from a file (HDF5, JSON, classic text) instead of constructed
        sp3 = spec(2, starts=OPS.loaded_start_tables())
        sp3.label = 'loaded-d2'
        E.explore(run, sp3)
    run.extra['alphabet'] = [E.opname(o) for o in OPS.all_ops()]
    run.extra['inplace_subalphabet'] = len(sub)
    run.extra['depth_completed'] = info['depth_completed']
    run.extra['fixpoint'] = info['fixpoint']
    vacuity(run, ['op:' + o[0] for o in OPS.all_ops()])
    run.assumptions += ['start tables: ' + ', '.join(OPS.start_tables()),
                        'subsample uses the real generator with fixed seeds 0..2 here; every RNG '
                        'answer is enumerated in C12']


def replay(case):
    st = dict(OPS.start_tables())
    st.update(OPS.loaded_start_tables())
    return E.replay_history(spec(len(case['history']), starts=st), case)
