"""C16 – equality and serialisation depend only on content, never on representation.

Part A (E2): every matrix over {0,1,2} of the tier's shapes built through every route
(constructor input forms, sparse layouts with unsorted indices / explicit zeros, layout
prefixes): all pairs ==, !=, descriptive_equality in both orders, identical TSV / JSON /
HDF5 exports, identical per-id and per-cell answers; every single-field neighbour unequal.
Part B (E1): a content-preserving alphabet (incl. the read accessors) explored to
FIXPOINT from several routes of the same content; every reached concrete state of a
content class is compared with every other one.
"""
import datetime
import io
import itertools
import json
import os

import numpy as np

from .. import explorer as E
from .. import observe as O
from .. import ops as OPS
from .. import pipeline as P
from ..core import h64, vacuity
from ..model import M

LEVEL = 'model_checking'
RULE = ('part A: every matrix over {0,1,2} (and over {0,-2,0.5} on the smallest shapes) of the tier\'s shapes x every construction route (25, incl. float32 / integer inputs) – all '
        'ordered pairs compared with ==, != and descriptive_equality, exports compared, every single-field '
        'neighbour must be unequal; non-trivial = matrix with a non-zero cell. part B: explicit-state '
        'search of a content-preserving alphabet (with read accessors as transitions) to fixpoint; all '
        'ordered pairs of reached concrete states per content class compared')

DATE = datetime.datetime(2020, 1, 2, 3, 4, 5)
OID = ['o10', 'o9', 'o2']
SID = ['s2', 's1', 's3']
ROUTES = ['dense', 'nested', 'triples', 'triples0', 'dict', 'rows', 'csr', 'csc', 'coo', 'lil', 'dok',
          'csr_unsorted', 'csr_stored0', 'colread', 'sort_inverse', 'TT', 'copy', 'filter_all', 'nnzread',
          'matrix_data_zero', 'subsample_full', 'csr_f32', 'coo_i64', 'dense_f32', 'dense_int']


def route(name, D, oids, sids, omd, smd, ttype):
    """build the table with dense content D through the named route (None = not applicable)"""
    import scipy.sparse as sp
    from biom import Table
    N, Mm = D.shape
    cp = (lambda x: None if x is None else [dict(e) for e in x])
    kw = dict(type=ttype)

    def T(data, **extra):
        k = dict(kw)
        k.update(extra)
        return Table(data, list(oids), list(sids), cp(omd), cp(smd), **k)
    if name == 'dense':
        return T(D.copy())
    if name == 'nested':
        return T(D.tolist(), input_is_dense=True)
    if name in ('triples', 'triples0'):
        tr = [[i, j, D[i, j]] for i in range(N) for j in range(Mm) if D[i, j] != 0 or name == 'triples0']
        if not tr:
            return None
        return T(tr)
    if name == 'dict':
        d = {(i, j): D[i, j] for i in range(N) for j in range(Mm) if D[i, j] != 0}
        if not d:
            return None
        return T(d)
    if name == 'rows':
        return T([D[i, :].copy() for i in range(N)])
    if name in ('csr', 'csc', 'coo', 'lil', 'dok'):
        return T(getattr(sp, name + '_matrix')(D))
    # the same numbers held in another numeric type by the caller (all values used here are exact in every one)
    if name in ('csr_f32', 'coo_i64', 'dense_f32', 'dense_int'):
        if name.endswith(('i64', 'int')) and not np.all(D == np.floor(D)):
            return None
        if name == 'csr_f32':
            return T(sp.csr_matrix(D, dtype=np.float32))
        if name == 'coo_i64':
            return T(sp.coo_matrix(D.astype(np.int64)))
        if name == 'dense_f32':
            return T(D.astype(np.float32))
        return T(D.astype(int))
    if name == 'csr_unsorted':
        m = sp.csr_matrix(D)
        for r in range(N):
            a, b = m.indptr[r], m.indptr[r + 1]
            m.indices[a:b] = m.indices[a:b][::-1].copy()
            m.data[a:b] = m.data[a:b][::-1].copy()
        m.has_sorted_indices = False
        return T(m)
    if name == 'csr_stored0':
        rows, cols = np.nonzero(np.ones_like(D))
        return T(sp.csr_matrix((D[rows, cols], (rows, cols)), shape=D.shape))
    if name == 'matrix_data_zero':
        # an entry of the exposed matrix overwritten with 0: the zero stays stored
        zeros = np.argwhere(D == 0)
        if len(zeros) == 0:
            return None
        i, j = (int(x) for x in zeros[0])
        D2 = D.copy()
        D2[i, j] = 7.0
        t = T(D2)
        t.matrix_data[i, j] = 0.0
        return t
    t = T(D.copy())
    if name == 'colread':
        t.data(sids[0], 'sample')
        return t
    if name == 'sort_inverse':
        r = t.sort_order(list(sids)[::-1], axis='sample').sort_order(list(sids), axis='sample')
        r = r.sort_order(list(oids)[::-1], axis='observation').sort_order(list(oids), axis='observation')
        r.type = ttype
        return r
    if name == 'TT':
        r = t.transpose().transpose()
        r.type = ttype
        return r
    if name == 'copy':
        return t.copy()
    if name == 'filter_all':
        t.filter(lambda v, i, md: True, axis='observation', inplace=True)
        t.filter(set(sids), axis='sample', inplace=True)
        return t
    if name == 'nnzread':
        t.nnz
        return t
    if name == 'subsample_full':
        tot = D.sum(axis=0)
        if not (np.all(D >= 0) and np.all(D == np.floor(D)) and len(set(tot)) == 1 and tot[0] >= 1 and
                np.all(D.sum(axis=1) > 0)):
            return None
        r = t.subsample(int(tot[0]), seed=5)
        r.type = ttype
        return r
    raise KeyError(name)


def raw_hdf5(t, tmp, tag):
    """independent (raw h5py) decode of what to_hdf5 writes"""
    import h5py
    path = os.path.join(tmp, 'c16_%s.h5' % tag)
    with h5py.File(path, 'w') as fh:
        t.to_hdf5(fh, 'verif', creation_date=DATE)
    out = {}
    with h5py.File(path, 'r') as fh:
        shape = tuple(int(x) for x in fh.attrs['shape'])
        out['shape'] = shape
        out['type'] = fh.attrs['type'] if not isinstance(fh.attrs['type'], bytes) else fh.attrs['type'].decode()
        for ax, (n, mlen) in (('observation', (shape[0], shape[1])), ('sample', (shape[1], shape[0]))):
            ids = [x.decode('utf8') if isinstance(x, bytes) else str(x) for x in fh[ax + '/ids'][:]]
            out[ax + '/ids'] = ids
            data = fh[ax + '/matrix/data'][:]
            ind = fh[ax + '/matrix/indices'][:]
            ptr = fh[ax + '/matrix/indptr'][:]
            dense = np.zeros((n, mlen))
            for r in range(n):
                for k in range(ptr[r], ptr[r + 1]):
                    dense[r, ind[k]] = data[k]
            out[ax + '/dense'] = (dense if ax == 'observation' else dense.T).tolist()
            md = {}
            for k in fh[ax + '/metadata']:
                md[k] = [x.decode('utf8') if isinstance(x, bytes) else repr(np.asarray(x).tolist())
                         for x in fh[ax + '/metadata'][k][:]]
            out[ax + '/metadata'] = md
    os.unlink(path)
    return out


def exports(t, tmp, tag):
    e = {}
    e['tsv'] = t.to_tsv()
    e['json'] = json.loads(t.to_json('verif', creation_date=DATE))
    e['hdf5'] = raw_hdf5(t, tmp, tag)
    return e


def export_matrices(e, N, Mm):
    """dense matrices decoded from the TSV text, the JSON document and the raw HDF5 file"""
    out = {}
    try:
        rows = [ln.split('\t') for ln in e['tsv'].split('\n') if ln and not ln.startswith('#')]
        out['tsv'] = [[float(x) for x in r[1:1 + Mm]] for r in rows]
    except Exception as ex:
        out['tsv'] = 'undecodable: %s' % ex
    try:
        m = np.zeros((N, Mm))
        for i, j, v in e['json']['data']:
            m[int(i), int(j)] = float(v)
        out['json'] = m.tolist()
    except Exception as ex:
        out['json'] = 'undecodable: %s' % ex
    out['hdf5'] = e['hdf5'].get('observation/dense')
    out['hdf5-sample-view'] = e['hdf5'].get('sample/dense')
    return out


def queries(t):
    oids, sids = list(t.ids('observation')), list(t.ids())
    q = []
    def ans(f):
        # an exception is an answer too (two equal tables must give the same one)
        try:
            return f()
        except Exception as e:
            return 'raised ' + type(e).__name__
    for ax, ids in (('observation', oids), ('sample', sids)):
        for i in ids:
            md = ans(lambda: t.metadata(i, ax))
            q.append((ax, str(i), ans(lambda: tuple(float(x) for x in t.data(i, ax))), ans(lambda: t.index(i, ax)),
                      md if md is None or isinstance(md, str) else O.freeze(dict(md))))
    for o in oids:
        for s in sids:
            q.append((str(o), str(s), ans(lambda: float(t.get_value_by_ids(o, s)))))
    return q


def compare_pair(a, b, bad, acc, la, lb):
    """a, b have equal content: every verdict must say so"""
    acc.evals += 1
    eq = (a == b)
    ne = (a != b)
    de = a.descriptive_equality(b)
    if eq is not True and not (eq is np.True_):
        bad('equal-content-compares-unequal', '%s == %s is %r; descriptive_equality: %s' % (la, lb, eq, de),
            a=la, b=lb)
        return False
    if ne:
        bad('equal-content-ne-true', '%s != %s is %r' % (la, lb, ne), a=la, b=lb)
        return False
    if de != 'Tables appear equal':
        bad('descriptive-equality-disagrees', 'descriptive_equality(%s, %s) says %r' % (la, lb, de), a=la, b=lb)
        return False
    return True


# ----------------------------------------------------------------------------- part A
def cases(tier, seed):
    shapes = [(1, 1), (1, 2), (2, 1), (2, 2)] + ([(2, 3), (3, 2)] if tier == 'thorough' else [])
    out = []
    for sh in shapes:
        for vals in itertools.product((0, 1, 2), repeat=sh[0] * sh[1]):
            out.append({'shape': list(sh), 'vals': list(vals), 'md': (sum(vals) + len(out)) % 2 == 0})
    # negative and fractional values (exact in float32 as well)
    for sh in ((1, 1), (1, 2), (2, 1)) + (((2, 2),) if tier == 'thorough' else ()):
        for vals in itertools.product((0, -2, 0.5), repeat=sh[0] * sh[1]):
            if any(v not in (0,) for v in vals):
                out.append({'shape': list(sh), 'vals': list(vals), 'md': len(out) % 2 == 0})
    if tier == 'quick':
        for vals in ([1, 0, 2, 0, 2, 1], [1, 0, -2, 0, 0.5, -1], [1, 1, 1, 1, 1, 1], [0, 0, 0, 0, 0, 0], [2, 1, 0, 0, 1, 2]):
            for sh in ((2, 3), (3, 2)):
                out.append({'shape': list(sh), 'vals': vals, 'md': True})
    return out


def neighbours(D, oids, sids, omd, smd, ttype):
    """(label, args) of tables differing from the base in exactly one field"""
    N, Mm = D.shape
    for i in range(N):
        for j in range(Mm):
            D2 = D.copy()
            D2[i, j] = D[i, j] + 1
            yield 'value', (D2, oids, sids, omd, smd, ttype)
            if D[i, j] != 0:
                D3 = D.copy()
                D3[i, j] = 0
                yield 'value-to-zero', (D3, oids, sids, omd, smd, ttype)
    for k in range(N):
        o2 = list(oids)
        o2[k] = o2[k] + 'x'
        yield 'obs-id', (D, o2, sids, omd, smd, ttype)
    for k in range(Mm):
        s2 = list(sids)
        s2[k] = s2[k] + 'x'
        yield 'samp-id', (D, oids, s2, omd, smd, ttype)
    if N >= 2:
        o2 = list(oids)
        o2[0], o2[1] = o2[1], o2[0]
        yield 'obs-id-swap', (D, o2, sids, omd, smd, ttype)
    if Mm >= 2:
        s2 = list(sids)
        s2[0], s2[1] = s2[1], s2[0]
        yield 'samp-id-swap', (D, oids, s2, omd, smd, ttype)
    if omd is not None:
        m2 = [dict(e) for e in omd]
        m2[-1]['k'] = 'changed'
        yield 'obs-metadata', (D, oids, sids, m2, smd, ttype)
        yield 'obs-metadata-dropped', (D, oids, sids, None, smd, ttype)
        # one entry with one category more / one category fewer than the base (every key it shares is equal)
        for k in range(N):
            m2 = [dict(e) for e in omd]
            m2[k]['extra'] = 'x'
            yield 'obs-metadata-extra-key', (D, oids, sids, m2, smd, ttype)
            m2 = [dict(e) for e in omd]
            del m2[k]['k']
            yield 'obs-metadata-missing-key', (D, oids, sids, m2, smd, ttype)
    if smd is not None:
        m2 = [dict(e) for e in smd]
        m2[0]['g'] = 'changed'
        yield 'samp-metadata', (D, oids, sids, omd, m2, ttype)
        yield 'samp-metadata-dropped', (D, oids, sids, omd, None, ttype)
        for k in range(Mm):
            m2 = [dict(e) for e in smd]
            m2[k]['extra'] = None
            yield 'samp-metadata-extra-key', (D, oids, sids, omd, m2, ttype)
    yield 'type', (D, oids, sids, omd, smd, 'Pathway table' if ttype != 'Pathway table' else None)


def check(case, acc, tmp):
    N, Mm = case['shape']
    D = np.array(case['vals'], float).reshape(N, Mm)
    oids, sids = OID[:N], SID[:Mm]
    omd = [({'k': 'v%d' % i, 'taxonomy': ['a', 'b%d' % i]} if i % 2 == 0 else
            {'taxonomy': ['a', 'b%d' % i], 'k': 'v%d' % i}) for i in range(N)] if case['md'] else None
    smd = [{'g': 'w%d' % j} for j in range(Mm)] if case['md'] else None
    ttype = 'OTU table'
    if any(case['vals']):
        acc.nontrivial.add(h64((tuple(case['shape']), tuple(case['vals']), case['md'])))

    def bad(sig, detail, **kw):
        c = dict(case)
        c.update(kw)
        acc.violation(sig, detail, c)

    tabs = []
    for rn in ROUTES:
        try:
            t = route(rn, D, oids, sids, omd, smd, ttype)
        except Exception as e:
            bad('route-raised:' + rn, 'construction route %s raised %s: %s' % (rn, type(e).__name__, e), route=rn)
            continue
        if t is None:
            continue
        acc.trans += 1
        acc.count('route:' + rn)
        acc.count('layout:' + O.layout_class(t))
        P.state(acc, O.concrete_key(t))
        tabs.append((rn, t))
    exp_content = M(oids, sids, D.tolist(), omd, smd, ttype).content()
    tabs2 = []
    for rn, t in tabs:
        if O.content(t) != exp_content:
            # a route that does not even produce the content is C17's/C06's business, not C16's
            acc.count('route-content-differs')
            continue
        tabs2.append((rn, t))
    tabs = tabs2
    acc.outcomes.add(h64(exp_content))
    # all ordered pairs (incl. reflexive)
    for (la, a), (lb, b) in itertools.product(tabs, repeat=2):
        if compare_pair(a, b, bad, acc, la, lb):
            acc.count('clause:pair-equal')
    # verdict stable when accessors run in between
    for (la, a), (lb, b) in itertools.product(tabs[:6], repeat=2):
        if la == lb:
            continue
        a.nnz
        for _ in b.iter(axis='observation'):
            pass
        a.data(sids[0], 'sample')
        compare_pair(a, b, bad, acc, la + '+accessors', lb + '+accessors')
    # exports and queries identical across the class
    ref = None
    for rn, t in tabs:
        try:
            e = exports(t, tmp, '%x' % h64((case['vals'], rn)))
            q = queries(t)
        except Exception as ex:
            bad('export-raised', 'export of route %s raised %s: %s' % (rn, type(ex).__name__, ex), route=rn)
            continue
        acc.evals += 1
        # the three forms carry the values of the matrix (so they also agree with each other)
        for kind, mat in export_matrices(e, N, Mm).items():
            if mat != D.tolist():
                bad('export-values:' + kind, '%s export of route %s holds %r, the matrix is %r' % (kind, rn, mat, D.tolist()),
                    route=rn)
            else:
                acc.count('clause:export-values')
        if ref is None:
            ref = (rn, e, q)
            # somebody writes a table with a formatter of their own for the category 'k' in between: the exports
            # that follow are plain ones again
            try:
                import h5py

                def shout(grp, header, md, compression):
                    grp.create_dataset('metadata/%s' % header, shape=(len(md),), dtype=h5py.special_dtype(vlen=str),
                                       data=[('!' + str(m.get(header))).encode('utf8') for m in md],
                                       compression=compression)
                if omd is not None:
                    fh0 = h5py.File('c16-fs-%d.h5' % os.getpid(), 'w', driver='core', backing_store=False)
                    try:
                        route('dense', D, oids, sids, omd, smd, ttype).to_hdf5(fh0, 'verif', format_fs={'k': shout})
                    finally:
                        fh0.close()
            except Exception:
                pass
            continue
        for kind in ('tsv', 'json', 'hdf5'):
            if e[kind] != ref[1][kind]:
                bad('export-differs:' + kind, '%s export of route %s differs from route %s' % (kind, rn, ref[0]),
                    a=ref[0], b=rn)
            else:
                acc.count('clause:export-' + kind)
        if q != ref[2]:
            bad('query-differs', 'per-id / per-cell answers of route %s differ from route %s' % (rn, ref[0]),
                a=ref[0], b=rn)
        else:
            acc.count('clause:queries')
    # single-field neighbours must be unequal – against three representations of the base
    reps = [x for x in tabs if x[0] in ('dense', 'colread', 'csr_unsorted', 'matrix_data_zero')]
    for label, args in neighbours(D, oids, sids, omd, smd, ttype):
        for nroute in ('dense', 'csc'):
            try:
                nb = route(nroute, *args)
            except Exception:
                continue
            if O.content(nb) == exp_content:
                continue
            for la, a in reps:
                acc.evals += 1
                acc.trans += 1
                v1, v2 = (a == nb), (nb == a)
                n1, n2 = (a != nb), (nb != a)
                de = a.descriptive_equality(nb)
                if v1 or v2 or not n1 or not n2 or de == 'Tables appear equal':
                    bad('different-content-compares-equal:' + label,
                        'tables differing in one %s: ==: %r/%r, !=: %r/%r, descriptive_equality: %s'
                        % (label, v1, v2, n1, n2, de), neighbour=label, a=la, b=nroute)
                else:
                    acc.count('clause:neighbour-unequal')


# ----------------------------------------------------------------------------- part B
PRESERVING = [('sort_inv', 'sample'), ('sort_inv', 'observation'), ('filter_all_ids', 'sample', True),
              ('filter_all_ids', 'observation', False), ('filter_all_pred', 'sample', False),
              ('filter_all_pred', 'observation', True), ('remove_empty', True), ('remove_empty', False),
              ('subsample_full',), ('TT',), ('copy',), ('rename_identity', 'sample'),
              ('rename_identity', 'observation'), ('nnz',), ('col',), ('row',), ('iter_s',), ('iter_o',),
              ('pairwise',), ('eq',), ('desc',), ('sum',), ('reduce',), ('tsv',), ('tsv_md',), ('hdf5',),
              ('dataframe',), ('minmax',), ('interleaved',), ('rename_refused', 'sample'),
              ('rename_refused', 'observation')]
READS = ('nnz', 'col', 'row', 'iter_s', 'iter_o', 'pairwise', 'eq', 'desc', 'sum', 'reduce', 'tsv', 'tsv_md',
         'hdf5', 'dataframe', 'minmax', 'interleaved')

B_CONTENTS = {
    'c1': ([[1, 0, 2], [0, 3, 0], [2, 0, 1]], True),      # column sums equal -> subsample_full applies
    'c2': ([[2, 1], [1, 2]], False),
    'c3': ([[0.5, 0, 0], [0, -3.5, 1e-7]], True),
    'c4': ([[0, 0], [0, 0]], True),
    'c5': ([[1, 2, 3]], False),
    'c6': ([[1], [0], [2]], True),
    'c7': ([[3, 0, 0], [0, 0, 3], [0, 3, 0]], False),
}
B_ROUTES = ['dense', 'csc', 'csr_unsorted', 'csr_stored0', 'coo', 'colread', 'matrix_data_zero']


def b_starts():
    S = {}
    for cname, (rows, md) in B_CONTENTS.items():
        D = np.array(rows, float)
        N, Mm = D.shape
        oids, sids = OID[:N], SID[:Mm]
        omd = [{'k': 'v%d' % i} for i in range(N)] if md else None
        if md and cname in ('c3', 'c6'):
            omd[0]['taxonomy'] = ['a', 'b']       # ragged: the other observations lack the category
        if md and cname in ('c1', 'c4'):
            # the same categories on every id, but written in a different key order
            omd = [({'k': 'v%d' % i, 'z': i} if i % 2 == 0 else {'z': i, 'k': 'v%d' % i}) for i in range(N)]
        smd = [{'g': 'w%d' % j} for j in range(Mm)] if md else None
        m = M(oids, sids, D.tolist(), omd, smd, 'OTU table')
        for rn in B_ROUTES:
            if route(rn, D, oids, sids, omd, smd, 'OTU table') is None:
                continue        # route not applicable to this content
            S['%s/%s' % (cname, rn)] = (
                (lambda rn=rn, D=D, oids=oids, sids=sids, omd=omd, smd=smd:
                 route(rn, D, oids, sids, omd, smd, 'OTU table')), m)
    return S


_DISAGREE = []     # filled by read ops that compare what they read with the matrix


def b_apply(op, t, m, strict=True):
    n = op[0]
    ty = t.type
    if n == 'sort_inv':
        ax = op[1]
        ids = list(t.ids(ax))
        r = t.sort_order(ids[::-1], axis=ax).sort_order(ids, axis=ax)
        return OPS.Res(r, m, False)
    if n == 'filter_all_ids':
        return OPS.Res(t.filter(list(t.ids(op[1])), axis=op[1], inplace=op[2]), m, op[2])
    if n == 'filter_all_pred':
        return OPS.Res(t.filter(lambda v, i, md: True, axis=op[1], inplace=op[2]), m, op[2])
    if n == 'remove_empty':
        if m.empties('sample') or m.empties('observation'):
            raise OPS.Refuse()
        return OPS.Res(t.remove_empty(inplace=op[1]), m, op[1])
    if n == 'subsample_full':
        D = np.array(m.m)
        tot = D.sum(axis=0)
        if not (np.all(D >= 0) and np.all(D == np.floor(D)) and len(set(tot)) == 1 and tot[0] >= 1
                and np.all(D.sum(axis=1) > 0)):
            raise OPS.Refuse()
        r = t.subsample(int(tot[0]), seed=11)
        return OPS.Res(r, m, False)
    if n == 'TT':
        r = t.transpose().transpose()
        r.type = ty
        return OPS.Res(r, m, False)
    if n == 'rename_refused':
        # an in-place renaming that sends two ids to one name is refused: the table is as it was, lookups included
        ids = [str(i) for i in t.ids(op[1])]
        if len(ids) < 2:
            raise OPS.Refuse()
        try:
            t.update_ids({ids[0]: 'dup', ids[1]: 'dup'}, axis=op[1], strict=False, inplace=True)
        except Exception:
            pass
        return OPS.Res(t, m, True)
    if n == 'copy':
        return OPS.Res(t.copy(), m, False)
    if n == 'rename_identity':
        return OPS.Res(t.update_ids({i: i for i in t.ids(op[1])}, axis=op[1], inplace=True), m, True)
    if n == 'nnz':
        t.nnz
    elif n == 'col':
        t.data(t.ids()[-1], 'sample')
    elif n == 'row':
        t.data(t.ids('observation')[0], 'observation')
    elif n == 'iter_s':
        for _ in t.iter(axis='sample', dense=False):
            pass
    elif n == 'iter_o':
        for _ in t.iter(axis='observation'):
            pass
    elif n == 'pairwise':
        for _ in t.iter_pairwise(axis='sample'):
            pass
    elif n == 'eq':
        t == t.copy()
        t != t.transpose()
    elif n == 'desc':
        t.descriptive_equality(t.copy())
    elif n == 'sum':
        t.sum('sample')
        t.sum('observation')
        t.nonzero_counts('whole')
    elif n == 'reduce':
        t.reduce(lambda a, b: a + b, 'sample')
        list(t.nonzero())
    elif n == 'interleaved':
        # two live iterators over different axes advanced in lock-step: what each yields must be the matrix
        D = np.asarray(t.matrix_data.toarray(), float)
        k = 0
        for (vo, io, _), (vs, is_, _) in zip(t.iter(axis='observation'), t.iter(axis='sample')):
            if not (np.array_equal(np.asarray(vo, float), D[k, :]) and np.array_equal(np.asarray(vs, float), D[:, k])):
                _DISAGREE.append('interleaved iteration step %d yields %r / %r, the matrix holds %r / %r'
                                       % (k, list(vo), list(vs), list(D[k, :]), list(D[:, k])))
            k += 1
    elif n == 'tsv':
        t.to_tsv()
        t.to_json('x')
    elif n == 'tsv_md':
        # exporting a category that some (here: all or all but one) observations lack
        t.to_tsv(header_key='taxonomy', header_value='taxonomy', metadata_formatter=str)
        t.to_tsv(header_key='k', header_value='k', metadata_formatter=str)
    elif n == 'hdf5':
        import h5py
        with h5py.File('c16-mem-%d.h5' % id(t), 'w', driver='core', backing_store=False) as fh:
            t.to_hdf5(fh, 'verif')
    elif n == 'dataframe':
        t.to_dataframe(dense=True)
        if t.metadata(axis='observation') is not None:
            t.metadata_to_dataframe('observation')
    elif n == 'minmax':
        if all(any(v != 0 for v in m.vec('sample', j)) for j in range(len(m.c))):
            t.min('sample')
            t.max('whole')
        t.nonzero_counts('observation')
        t.get_table_density()
        str(t)
        repr(t)
    else:
        raise KeyError(n)
    return OPS.Res(t, m, True)


def b_on_state(t, m, report):
    if O.content(t) != m.content():
        # the alphabet is content preserving by the *other* properties; if some op is not, the state
        # simply does not belong to the class and is left to C05/C06/C08/C12
        report('HARNESS-NOTE-content-left-class', 'state left its content class')


def b_on_transition(tr, report):
    """a read-only accessor / export must not change what the table holds"""
    while _DISAGREE:
        report('read-accessor-disagrees:' + tr.op[0], _DISAGREE.pop())
    if tr.op[0] in READS and not tr.raised and O.content(tr.recv) != tr.before:
        after = O.content(tr.recv)
        what = [n for n, a, b in zip(('observation ids', 'sample ids', 'values', 'observation metadata',
                                       'sample metadata', 'type'), after, tr.before) if a != b]
        report('read-accessor-changed-content:' + tr.op[0], 'calling %s changed the table\'s %s'
               % (E.opname(tr.op), ', '.join(what)))


def b_spec(depth=40):
    return E.Spec(b_starts(), PRESERVING, depth, check_ops=(), apply=b_apply, on_transition=b_on_transition,
                  want_before=True, label='content-preserving')


_B_STATES = None


def b_pairs(chunk, acc):
    sp = b_spec()
    for cname in chunk:
        members = [(s, h) for s, h in _B_STATES if s.startswith(cname + '/')]
        tabs = []
        base = b_starts()[cname + '/dense'][1].content()
        for s, h in members:
            t, m = E.build(sp, s, h)
            if O.content(t) != base:
                acc.count('state-left-class')
                continue
            tabs.append(('%s:%s' % (s, '>'.join(E.opname(o) for o in h)), t, s, h))
        acc.count('class-size:%s' % cname, len(tabs))
        for (la, a, sa, ha), (lb, b, sb, hb) in itertools.product(tabs, repeat=2):
            case = {'class': cname, 'a': {'start': sa, 'history': [list(o) for o in ha]},
                    'b': {'start': sb, 'history': [list(o) for o in hb]}}

            def bad(sig, detail, case=case, **kw):
                acc.violation(sig, detail, case)
            acc.trans += 1
            if compare_pair(a, b, bad, acc, la, lb):
                acc.count('clause:class-pair-equal')
        acc.traces += len(tabs)
        # exports identical across the class (the three cheapest representations + extremes)
        ref = None
        for la, a, sa, ha in tabs:
            e = (a.to_tsv(), json.loads(a.to_json('verif', creation_date=DATE)), queries(a))
            acc.evals += 1
            if ref is None:
                ref = (la, e)
            elif e != ref[1]:
                acc.violation('export-differs:class', 'TSV/JSON/queries of %s differ from %s' % (la, ref[0]),
                              {'class': cname, 'a': {'start': sa, 'history': [list(o) for o in ha]}})
            else:
                acc.count('clause:class-export')


# ----------------------------------------------------------------------------- part C
def c_on_state(t, m, report):
    """a copy equals its original; equality is reflexive – in every state any history reaches"""
    try:
        c = t.copy()
        v = [(t == c), (c == t), (t == t)]
        n = [(t != c), (c != t)]
        d = t.descriptive_equality(c)
    except Exception as e:
        report('copy-or-comparison-raised:' + type(e).__name__, 'copy() / == / descriptive_equality raised %s: %s'
               % (type(e).__name__, e))
        return
    if not all(bool(x) for x in v) or any(bool(x) for x in n) or d != 'Tables appear equal':
        report('copy-not-equal-to-original', 't==copy: %r, copy==t: %r, t==t: %r, !=: %r; descriptive_equality: %s'
               % (v[0], v[1], v[2], n, d))


def c_spec(depth, ops=None, label=None):
    return E.Spec(OPS.start_tables(), ops if ops is not None else OPS.all_ops(), depth, check_ops=(),
                  on_state=c_on_state, label=label or 'copy-equals-original-d%d' % depth)


def c_subalphabet():
    keep = ('add_md', 'del_md', 'del_md_all', 'del_md_whole', 'filter_first', 'filter_last', 'filter_md',
            'filter_none', 'transpose', 'copy', 'rev', 'rename_partial', 'collapse', 'merge_self', 'concat',
            'subs', 'nnz', 'col')
    return [o for o in OPS.all_ops() if o[0] in keep and (len(o) < 2 or o[-1] is not False)]


def run(run):
    global _B_STATES
    cs = cases(run.tier, run.seed)
    P.run_cases(run, cs, check, nchunks=128)
    info = E.explore(run, b_spec())
    _B_STATES = info['states']
    run.extra['fixpoint'] = info['fixpoint']
    run.extra['class_states'] = len(_B_STATES)
    if not info['fixpoint']:
        run.cap('content-preserving search did not close within depth %d' % info['depth_completed'])
    run.pmap(b_pairs, list(B_CONTENTS), nchunks=len(B_CONTENTS))
    dc = 2 if run.quick else 3
    E.explore(run, c_spec(dc))
    sub = c_subalphabet()
    E.explore(run, c_spec(3 if run.quick else 4, sub, 'copy-equals-original-metadata-subalphabet'))
    run.extra['bound'] = {'partA_cases': len(cs), 'routes': ROUTES, 'partB_alphabet': [E.opname(o) for o in PRESERVING],
                          'partB_contents': list(B_CONTENTS), 'partB_routes': B_ROUTES}
    vacuity(run, ['clause:pair-equal', 'clause:export-tsv', 'clause:export-json', 'clause:export-hdf5',
                  'clause:queries', 'clause:neighbour-unequal', 'clause:class-pair-equal',
                  'clause:class-export'] + ['route:' + r for r in ROUTES])


def replay(case):
    if 'history' in case:
        return E.replay_history(c_spec(len(case['history'])), case)
    if 'class' in case:
        from ..core import Acc
        sp = b_spec()
        found = []
        a, _ = E.build(sp, case['a']['start'], tuple(tuple(o) for o in case['a']['history']))
        if 'b' in case:
            b, _ = E.build(sp, case['b']['start'], tuple(tuple(o) for o in case['b']['history']))
            acc = Acc()
            compare_pair(a, b, lambda sig, detail, **kw: found.append((sig, detail)), acc, 'a', 'b')
        return found
    base = {k: case[k] for k in ('shape', 'vals', 'md')}
    return P.replay_case(check, base)
