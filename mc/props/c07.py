"""C07 – non-in-place operations never modify their inputs; in-place is equivalent.

Engine E1.  In every concrete state reached within the state-depth bound (i.e. in every
reachable sparse layout of the receiver) every operation of the alphabet is executed and
judged by three oracles:
  1. input preservation – content of the receiver and of every argument table before vs
     after each inplace=False / new-table call;
  2. no aliasing – four independent sequences of in-place mutators are applied to the
     result and the original is re-observed, and symmetrically to the original while the
     result is re-observed (each on a freshly replayed twin pair);
  3. equivalence – the in-place variant on a replayed twin returns the receiver itself and
     leaves it with exactly the content the copying variant returned.
"""
import copy

from .. import explorer as E
from .. import observe as O
from .. import ops as OPS
from ..core import vacuity

LEVEL = 'model_checking'
RULE = ('explicit-state BFS over histories; in every distinct concrete state every op of the alphabet is '
        'executed and judged for input preservation, aliasing (4 mutator sequences x 2 directions on '
        'replayed twins) and in-place/copy equivalence; a transition is non-trivial when the op executed '
        'and changed the concrete state or returned a new table, distinct by (source state, op)')

FLAG_OPS = ('filter_first', 'filter_last', 'filter_pred', 'filter_md', 'filter_none', 'filter_all',
            'remove_empty', 'transform2', 'transform_zero', 'norm', 'rank', 'pa', 'rename_long',
            'rename_partial', 'rename_swap', 'rename_rot', 'rename_empty', 'rename_extra')
_LAST_WATCH = []
COPY_FAMILY = ('copy', 'transpose', 'filter_first', 'filter_last', 'filter_pred', 'filter_md', 'filter_none',
               'filter_all', 'remove_empty', 'transform2', 'transform_zero', 'norm', 'rank', 'pa', 'head',
               'transform2_flag', 'pa_flag')


def apply(op, t, m, strict=True):
    global _LAST_WATCH
    OPS.ARG_WATCH = []
    try:
        return OPS.apply(op, t, m, strict)
    finally:
        _LAST_WATCH = OPS.ARG_WATCH
        OPS.ARG_WATCH = None


def _quiet(f):
    try:
        f()
    except Exception:
        pass


def gmd(x):
    return (repr(x.group_metadata('observation')), repr(x.group_metadata('sample')))


def lookups(x):
    """what the id -> position lookups answer for the ids the table lists (a shared lookup that somebody else
    patched shows here, not in ids() / the matrix)"""
    out = []
    for ax in ('observation', 'sample'):
        row = []
        for i in x.ids(ax):
            try:
                row.append((str(i), int(x.index(i, ax)), bool(x.exists(i, ax))))
            except Exception as e:
                row.append((str(i), type(e).__name__))
        out.append(tuple(row))
    return (tuple(out),)


def snapshot(x):
    """ids, values, metadata, type – the group metadata and the id lookups"""
    return O.content(x) + gmd(x) + lookups(x)


def starts(loaded=True):
    import numpy as np
    from biom import Table
    from ..model import M
    S = dict(OPS.start_tables())
    D = [[1, 2, 0], [0, 3, 4]]
    S['groupmd2x3'] = (lambda: Table(np.array(D, float), ['o1', 'o2'], ['a', 'b', 'c'], [{'k': '1'}, {'k': '2'}], None,
                                    observation_group_metadata={'tree': ('newick', '(o1,o2);')},
                                    sample_group_metadata={'graph': ('text', 'a-b-c')}),
                       M(['o1', 'o2'], ['a', 'b', 'c'], D, [{'k': '1'}, {'k': '2'}], None))
    # metadata whose first entry holds only atomic values while later ones hold lists
    homd = [{'taxonomy': 'Unassigned', 'k': '1'}, {'taxonomy': ['k__A', 'p__B'], 'k': '2'}]
    hsmd = [{'g': None}, {'g': ['x', 'y']}, {'g': 'u'}]
    S['hetero2x3'] = (lambda: Table(np.array(D, float), ['o1', 'o2'], ['a', 'b', 'c'], copy.deepcopy(homd),
                                    copy.deepcopy(hsmd)),
                      M(['o1', 'o2'], ['a', 'b', 'c'], D, homd, hsmd))
    if loaded:
        S.update(OPS.loaded_start_tables())      # tables read from a file (thorough tier)
    return S


def mutator_sequences():
    def rename_same_width(x):
        for ax in ('sample', 'observation'):
            ids = list(x.ids(ax))
            new = {i: str(i).swapcase() for i in ids}
            if ids and len(set(new.values())) == len(ids) and all(k != v for k, v in new.items()):
                x.update_ids(new, axis=ax, inplace=True)

    def group_md(x):
        for ax in ('sample', 'observation'):
            x.add_group_metadata({'tree': ('newick', '(changed);'), 'extra': ('text', 'x')}, ax)

    def rename(x):
        for ax in ('sample', 'observation'):
            ids = list(x.ids(ax))
            if ids:
                x.update_ids({i: str(i) + '_m' for i in ids}, axis=ax, inplace=True)

    def nested(x):
        # a list held inside an entry is changed where it is (through the entry the table hands out)
        for ax in ('sample', 'observation'):
            for e in (x.metadata(axis=ax) or ()):
                for v in e.values():
                    if isinstance(v, list):
                        v.append('zz')

    def addmd(x):
        for ax in ('sample', 'observation'):
            x.add_metadata({i: {'zz': 'new', 'k': 'over', 'g': 'over'} for i in x.ids(ax)}, ax)

    def dropfirst(ax):
        def f(x):
            ids = list(x.ids(ax))
            if ids:
                x.filter([ids[0]], axis=ax, invert=True, inplace=True)
        return f
    return {
        # only for the operations that are, or are built on, copy(): there the library deep-copies the metadata, so
        # even a list held inside an entry is the result's own (reordering / grouping operations re-wrap the entries
        # but share the values inside them - objects handed out by metadata() are not part of the operation alphabet)
        'nested': [nested],
        'filter': [dropfirst('observation'), dropfirst('sample')],
        'values': [lambda x: x.transform(lambda v, i, md: v * 2 + 1, axis='sample', inplace=True),
                   lambda x: x.transform(lambda v, i, md: v * 3, axis='observation', inplace=True),
                   lambda x: x.pa(inplace=True)],
        'labels': [rename_same_width, addmd, lambda x: x.del_metadata(['k', 'g', 'n', 'collapsed_ids']), rename,
                   group_md],
        'misc': [lambda x: x.remove_empty(inplace=True),
                 lambda x: x.rankdata(axis='sample', inplace=True),
                 lambda x: x.norm(axis='observation', inplace=True)],
    }


SEQS = mutator_sequences()


def on_transition(tr, report):
    op = tr.op
    if tr.raised or tr.inplace is None:
        return
    name = op[0]
    if tr.inplace:
        if tr.res is not tr.recv:
            report('inplace-identity:' + name, '%s did not return the receiver itself' % E.opname(op))
        return
    # ---------------------------------------------------------------- 1. input preservation
    after = O.content(tr.recv)
    if after != tr.before:
        what = [f for f, a, b in zip(('observation ids', 'sample ids', 'values', 'observation metadata',
                                       'sample metadata', 'type'), after, tr.before) if a != b]
        report('receiver-modified:' + name, '%s changed the receiver\'s %s' % (E.opname(op), ', '.join(what)))
    for aname, tab, before in _LAST_WATCH:
        if O.content(tab) != before:
            report('argument-modified:' + name, '%s changed its argument table (%s)' % (E.opname(op), aname))
    # ---------------------------------------------------------------- 2. aliasing
    for direction in ('result->original', 'original->result'):
        for sname, seq in SEQS.items():
            if sname == 'nested' and name not in COPY_FAMILY:
                continue
            t2, m2 = tr.rebuild()
            try:
                res2 = OPS.apply(op, t2, m2, False)
            except Exception:
                return
            r2 = res2.t
            if r2 is None:
                return
            victim, mutated = (t2, r2) if direction == 'result->original' else (r2, t2)
            snap = snapshot(victim)
            for f in seq:
                _quiet(lambda: f(mutated))
                now = snapshot(victim)
                if now != snap:
                    what = [n for n, a, b in zip(('observation ids', 'sample ids', 'values',
                                                   'observation metadata', 'sample metadata', 'type',
                                                   'observation group metadata', 'sample group metadata',
                                                   'id lookups'),
                                                  now, snap) if a != b]
                    report('aliasing:%s:%s' % (name, sname),
                           'after %s, in-place %s changes to the %s show through in the %s (%s)'
                           % (E.opname(op), sname, direction.split('->')[0], direction.split('->')[1],
                              ', '.join(what)))
                    break
    # ---------------------------------------------------------------- 3. equivalence
    if name in FLAG_OPS and op[-1] is False:
        t3, m3 = tr.rebuild()
        op3 = op[:-1] + (True,)
        try:
            res3 = OPS.apply(op3, t3, m3, False)
        except Exception as e:
            report('inplace-variant-raised:' + name, 'the copying variant of %s succeeded but the in-place '
                   'variant raised %s: %s' % (E.opname(op), type(e).__name__, e))
            return
        if res3.t is not t3:
            report('inplace-identity:' + name, '%s did not return the receiver itself' % E.opname(op3))
        if O.content(t3) != O.content(tr.res):
            report('inplace-vs-copy:' + name, 'in-place %s leaves the receiver different from what the '
                   'copying variant returns' % E.opname(op))


def spec(depth, loaded=True):
    return E.Spec(starts(loaded), OPS.all_ops(), depth, check_ops=(), on_transition=on_transition,
                  apply=apply, want_before=True, label='d%d' % depth)


def run(run):
    depth = 2 if run.quick else 3
    info = E.explore(run, spec(depth, loaded=not run.quick))
    run.extra['state_depth'] = info['depth_completed'] - 1
    run.extra['depth_completed'] = info['depth_completed']
    run.extra['mutator_sequences'] = {k: len(v) for k, v in SEQS.items()}
    vacuity(run, ['op:' + o[0] for o in OPS.all_ops()])
    run.assumptions.append('observation = ids, dense values, metadata, type through public accessors')


def replay(case):
    return E.replay_history(spec(len(case['history'])), case)
