"""C01 – the HDF5 (BIOM 2.x) write/read round trip is lossless.

Engine E2.  Every table spec of the exhaustive products below is built on the real code,
observed through public accessors *just before writing*, written with one of the writers
and read back through every loader; the loaded table is compared field by field with the
observation of the source.

Product A  every sparsity mask of every shape x every layout prefix x compress {on, off}
           x writer x every loader, plain ids, no metadata, default header.
           (thorough: A2 = the same masks x layouts x compress with a second value rotation,
           path writer only.)
Product B  (fixed masks: dense 2x3, a 3x3 with an empty row and an empty column, 1x1)
           B-ids   observation id style x sample id style
           B-md    observation metadata kind x sample metadata kind
           B-x     id style x metadata kind (seed rotates which style / kind the sample axis
                   gets relative to the observation axis)
           B-hdr   header variant x group-metadata variant
           B-type  every table type of the vocabulary and None
           B-full  (thorough) id style x id style x metadata kind x metadata kind
           each x layout prefixes x compress x writers x every loader as listed in
           run.extra['bound'].
The spine (table specs) is shared with C04 (`spine`, `build`, `observe_source`).
"""
import datetime
import itertools
import json
import os

import numpy as np

from .. import domain as D
from .. import observe as O
from .. import pipeline as P
from ..core import h64, vacuity

LEVEL = 'model_checking'
RULE = ('full cartesian products (A: every sparsity mask of every shape x every layout prefix x '
        'compress on/off x 3 writers; B: id style x id style, metadata kind x metadata kind, style x '
        'kind, header x group metadata, every table type, on 3 fixed masks x layout prefixes x compress '
        'x writers), every written file read back through 4 loaders on the real code and compared field '
        'by field with an observation of the source taken just before writing; a case is non-trivial '
        'when the table has at least one non-zero cell or non-default ids/metadata/header/group '
        'metadata; distinct by case (table spec, compress, writer)')

DATE = datetime.datetime(2021, 3, 4, 5, 6, 7, 891011)
# creation dates: with microseconds, on a whole second (isoformat drops the fraction), timezone-aware
DATES = [DATE, datetime.datetime(2014, 6, 3), datetime.datetime(2014, 6, 3, 14, 24, 40),
         datetime.datetime(2020, 2, 29, 23, 59, 59, 5, tzinfo=datetime.timezone(datetime.timedelta(hours=2)))]


def date_of(case):
    return DATES[case.get('date', 0)]
PLACEHOLDER = 'No Table ID'          # the 2.1 specification's example value for an absent id
GEN_DEFAULT = 'verif-harness'
WRITERS = ['to_hdf5', 'to_hdf5_core', 'save_table']
LOADERS = ['load_table', 'parse_table', 'from_hdf5', 'from_hdf5_obs']

# dense 2x3; 3x3 with row 1 and column 1 empty; 1x1
FIXED = [((2, 3), 0b111111), ((3, 3), 0b101000101), ((1, 1), 1)]

# group-metadata variants: {axis: {name: [data_type, payload]}}
GMD = [
    None,
    {'observation': {'tree': ['newick', '((o1:0.1,o2:0.2):0.3,o3);']}},
    {'sample': {'relationships': ['text', 'grüße 日本 "q" \\ s1>s2']}},
    {'observation': {'tree': ['newick', '(a,b);'], 'note': ['text', 'second entry']},
     'sample': {'tree': ['newick', '(s1,(s2,s3));']}},
    # very short payloads (a single-tip tree is two characters long)
    {'observation': {'tree': ['newick', 'a;'], 'one': ['text', 'x']}, 'sample': {'three': ['text', 'abc'], 'two': ['xy', 'pq']}},
]

QUICK_B_LAYOUTS = ['csr', 'unsorted', 'filtered']


# ------------------------------------------------------------------------- the spine
def b_layouts(tier):
    return QUICK_B_LAYOUTS if tier == 'quick' else [x for x in D.LAYOUTS if x != 'subsample_full']


def spine(tier, seed):
    """list of table specs (JSON-able, without writer/compress): products A and B"""
    out = []
    rot = seed % len(D.HARD)
    rots = [rot] if tier == 'quick' else [rot, (rot + 5) % len(D.HARD)]
    for shape in D.shapes(tier):
        for mask in D.masks(shape):
            for lay in D.LAYOUTS:
                if lay == 'subsample_full':
                    out.append({'prod': 'A', 'shape': list(shape), 'mask': mask, 'rot': 0,
                                'pool': 'int', 'layout': lay})
                    continue
                for k, r in enumerate(rots):
                    out.append({'prod': 'A' if k == 0 else 'A2', 'shape': list(shape), 'mask': mask,
                                'rot': r, 'pool': 'hard', 'layout': lay})
    lays = b_layouts(tier)
    ns, nk = len(D.ID_STYLES), len(D.MD_KINDS)
    for shape, mask in FIXED:
        base = {'shape': list(shape), 'mask': mask, 'rot': rot}
        for lay in lays:
            for so, ss in itertools.product(D.ID_STYLES, repeat=2):
                out.append(dict(base, prod='B-ids', obs_style=so, samp_style=ss, header=1, layout=lay))
            for mo, ms in itertools.product(D.MD_KINDS, repeat=2):
                out.append(dict(base, prod='B-md', obs_md=mo, samp_md=ms, header=1, layout=lay))
            for i, k in itertools.product(range(ns), range(nk)):
                if tier == 'quick' and lay != 'csr':
                    continue          # quick: B-x on the fresh-CSR layout only (stated in bound)
                out.append(dict(base, prod='B-x', obs_style=D.ID_STYLES[i],
                                samp_style=D.ID_STYLES[(i + seed) % ns], obs_md=D.MD_KINDS[k],
                                samp_md=D.MD_KINDS[(k + seed) % nk], header=1, layout=lay))
            out.append(dict(base, prod='B-ids', obs_style='edgews', samp_style='edgews', obs_md='textws',
                            samp_md='textws', header=1, layout=lay))
            out.append(dict(base, prod='B-md', obs_md='casevariant', samp_md='casevariant', header=1, layout=lay))
            # an ordinary write after a write that passed its own formatter for a category of the same name
            out.append(dict(base, prod='B-md', obs_md='text', samp_md='two', header=1, layout=lay, after_format_fs=True))
            for hd, g in itertools.product(range(len(D.HEADERS)), range(len(GMD))):
                out.append(dict(base, prod='B-hdr', header=hd, gmd=g, layout=lay))
            if lay == 'csr':
                for dt in range(1, len(DATES)):
                    out.append(dict(base, prod='B-hdr', header=1, gmd=0, layout=lay, date=dt))
        if tier == 'thorough':
            for so, ss, mo, ms in itertools.product(D.ID_STYLES, D.ID_STYLES, D.MD_KINDS, D.MD_KINDS):
                out.append(dict(base, prod='B-full', obs_style=so, samp_style=ss, obs_md=mo, samp_md=ms,
                                header=1, layout='csr'))
    for ty in D.TYPES:
        out.append({'prod': 'B-type', 'shape': [2, 2], 'mask': 0b0110, 'rot': rot, 'type': ty,
                    'layout': 'csr'})
    for shape, vals in D.CANCEL:       # rows / columns whose mixed-sign values cancel
        for lay in ('csr', 'csc', 'unsorted'):
            out.append({'prod': 'B-type', 'shape': list(shape), 'mask': (1 << len(vals)) - 1, 'vals': list(vals),
                        'layout': lay})
    return out


def writers_for(spec, tier):
    """Which writers a spec is multiplied with (stated in run.extra['bound']).
    The writer decides how the HDF5 handle comes into being, not what is put into it, so the
    big id / metadata products are not multiplied with every writer."""
    p = spec['prod']
    if p in ('A2', 'B-full'):
        return ['to_hdf5']
    if p in ('B-ids', 'B-md', 'B-x'):
        return ['to_hdf5'] if tier == 'quick' else ['to_hdf5', 'save_table']
    return WRITERS


def compress_for(spec):
    return [True] if spec['prod'] == 'B-full' else [True, False]


def cases(tier, seed):
    out = []
    for spec in spine(tier, seed):
        for w in writers_for(spec, tier):
            for comp in compress_for(spec):
                out.append(dict(spec, writer=w, compress=comp))
    return out


# ------------------------------------------------------------------------- build / observe
def build(case):
    t = D.build(case)
    if t is None:
        return None
    g = GMD[case.get('gmd', 0)]
    if g:
        for axis, ent in g.items():
            t.add_group_metadata({k: (dt, payload) for k, (dt, payload) in ent.items()}, axis)
    return t


def pyify(x):
    if isinstance(x, dict):
        return {str(k): pyify(v) for k, v in x.items()}
    if isinstance(x, (list, tuple)):
        return [pyify(v) for v in x]
    if isinstance(x, np.ndarray):
        return pyify(x.tolist())
    if isinstance(x, np.generic):
        return x.item()
    if isinstance(x, bytes):
        return x
    return x


def md_of(t, axis):
    """None (no metadata / every entry empty) or a list of plain dicts, one per id"""
    md = t.metadata(axis=axis)
    if md is None:
        return None
    out = [pyify(dict(m)) if m else {} for m in md]
    return out if any(out) else None


def gmd_payloads(t, axis, written):
    """{name: text payload}.  Source tables hold (data_type, payload), loaded tables the payload."""
    g = t.group_metadata(axis)
    if not g:
        return {}
    out = {}
    for k, v in g.items():
        if written and isinstance(v, (tuple, list)) and len(v) == 2:
            v = v[1]
        out[str(k)] = v
    return out


def observe_source(t):
    return {
        'obs_ids': list(O.ids(t, 'observation')), 'samp_ids': list(O.ids(t, 'sample')),
        'bits': O.dense_bits(t), 'obs_md': md_of(t, 'observation'), 'samp_md': md_of(t, 'sample'),
        'type': t.type, 'table_id': t.table_id, 'generated_by': t.generated_by,
        'obs_gmd': gmd_payloads(t, 'observation', True), 'samp_gmd': gmd_payloads(t, 'sample', True),
    }


def _is_number(x):
    return isinstance(x, (bool, int, float, np.number, np.bool_)) and not isinstance(x, str)


def md_diff(got, exp):
    """None, or (class, text).  Equivalences as the property states them: text = text;
    numeric / boolean by value; hierarchical list = list of the same non-empty strings."""
    if exp is None:
        if got is None:
            return None
        return 'presence', 'metadata %r where the source has none' % (got,)
    if got is None:
        return 'presence', 'no metadata, the source has %r' % (exp,)
    if len(got) != len(exp):
        return 'presence', '%d metadata entries for %d ids' % (len(got), len(exp))
    for k, (g, e) in enumerate(zip(got, exp)):
        if set(g) != set(e):
            return 'categories', 'entry %d has categories %r, source %r' % (k, sorted(g), sorted(e))
        for c in sorted(e):
            gv, ev = g[c], e[c]
            if isinstance(ev, str):
                if not (isinstance(gv, str) and gv == ev):
                    return 'text', 'entry %d, %r: %r, source %r' % (k, c, gv, ev)
            elif isinstance(ev, (list, tuple)):
                if not (isinstance(gv, (list, tuple)) and [x for x in gv] == [x for x in ev]
                        and all(isinstance(x, str) for x in gv)):
                    return 'list', 'entry %d, %r: %r, source %r' % (k, c, gv, list(ev))
            elif _is_number(ev):
                if not (_is_number(gv) and float(gv) == float(ev)):
                    return 'number', 'entry %d, %r: %r, source %r' % (k, c, gv, ev)
            else:
                if gv != ev:
                    return 'other', 'entry %d, %r: %r, source %r' % (k, c, gv, ev)
    return None


def is_nontrivial(case, src):
    if any(any(row) for row in src['bits']):
        return True
    return any(case.get(k) not in (None, 'plain', 'none', 0) for k in
               ('obs_style', 'samp_style', 'obs_md', 'samp_md', 'header', 'type', 'gmd'))


def count_factors(acc, case, t):
    acc.count('prod:' + case['prod'])
    acc.count('layoutname:' + case.get('layout', 'csr'))
    acc.count('layout:' + O.layout_class(t))
    acc.count('shape:%dx%d' % tuple(case['shape']))
    acc.count('compress:' + ('on' if case.get('compress', True) else 'off'))
    acc.count('writer:' + case['writer'])
    for k in ('obs_style', 'samp_style'):
        acc.count('style:' + case.get(k, 'plain'))
    for k in ('obs_md', 'samp_md'):
        acc.count('md:' + case.get(k, 'none'))
    acc.count('header:%d' % case.get('header', 0))
    acc.count('gmd:%d' % case.get('gmd', 0))


# ------------------------------------------------------------------------- writing
class Written:
    """A written artefact: a path on disk, or an open in-memory handle."""

    def __init__(self, path=None, handle=None):
        self.path, self.handle = path, handle

    def close(self):
        if self.handle is not None:
            try:
                self.handle.close()
            except Exception:
                pass
            self.handle = None
        if self.path is not None and os.path.exists(self.path):
            os.unlink(self.path)


def write(t, case, gen, tmp, tag):
    """Run the writer named in the case.  Returns a Written; library exceptions propagate."""
    import h5py
    from biom import save_table
    w = case['writer']
    comp = bool(case.get('compress', True))
    name = '%s_%016x.biom' % (tag, h64(json.dumps(case, sort_keys=True)))
    path = os.path.join(tmp, name)
    if w == 'to_hdf5':
        with h5py.File(path, 'w') as fh:
            t.to_hdf5(fh, gen, compress=comp, creation_date=date_of(case))
        return Written(path=path)
    if w == 'to_hdf5_core':
        fh = h5py.File(name, 'w', driver='core', backing_store=False)
        try:
            t.to_hdf5(fh, gen, compress=comp, creation_date=date_of(case))
        except Exception:
            fh.close()
            raise
        return Written(handle=fh)
    if w == 'save_table':
        try:
            save_table(t, path, generated_by=gen, compress=comp, creation_date=date_of(case))
        except Exception:
            if os.path.exists(path):
                os.unlink(path)
            raise
        return Written(path=path)
    raise KeyError(w)


def load(loader, art):
    import h5py
    from biom import Table, load_table, parse_table
    if art.handle is not None:
        fh = art.handle
        if loader == 'load_table':
            return load_table(fh)
        if loader == 'parse_table':
            return parse_table(fh)
        if loader == 'from_hdf5':
            return Table.from_hdf5(fh)
        return Table.from_hdf5(fh, axis='observation')
    if loader == 'load_table':
        return load_table(art.path)
    with h5py.File(art.path, 'r') as fh:
        if loader == 'parse_table':
            return parse_table(fh)
        if loader == 'from_hdf5':
            return Table.from_hdf5(fh)
        return Table.from_hdf5(fh, axis='observation')


# ------------------------------------------------------------------------- the check
def check(case, acc, tmp):
    try:
        t = build(case)
    except Exception as e:       # the layout prefix itself failed: another property's business
        acc.count('skipped:build-raised:%s' % type(e).__name__)
        return
    if t is None:
        acc.count('skipped:layout-not-applicable')
        return
    acc.trans += 1
    if tuple(t.shape) != (len(t.ids(axis='observation')), len(t.ids())):
        acc.count('skipped:incoherent-source-table')      # C05's business
        return
    count_factors(acc, case, t)
    if case.get('after_format_fs'):
        import h5py

        def shout(grp, header, md, compression):
            grp.create_dataset('metadata/%s' % header, shape=(len(md),), dtype=h5py.special_dtype(vlen=str),
                               data=[('!' + str(m[header])).encode('utf8') for m in md], compression=compression)
        fh0 = h5py.File('c01-fs-%d.h5' % os.getpid(), 'w', driver='core', backing_store=False)
        try:
            build(case).to_hdf5(fh0, 'verif', format_fs={'label': shout})
        finally:
            fh0.close()
    src = observe_source(t)
    before = O.content(t)
    gen = src['generated_by'] if src['generated_by'] is not None else GEN_DEFAULT
    if src['generated_by'] is not None and case.get('header', 0) != 1:
        # the string passed to the writer is the one that counts, not the one the table was built with
        gen = gen + ' (as passed to the writer)'
    exp_id = src['table_id'] if src['table_id'] is not None else PLACEHOLDER
    if is_nontrivial(case, src):
        acc.nontrivial.add(h64(json.dumps(case, sort_keys=True)))
    P.state(acc, 'src', before, src['table_id'], gen, repr(src['obs_gmd']), repr(src['samp_gmd']),
            O.layout_class(t))

    def bad(sig, detail):
        acc.violation(sig, detail, case)

    acc.trans += 1
    try:
        art = write(t, case, gen, tmp, 'c01')
    except Exception as e:
        bad('writer-raised:%s:%s' % (case['writer'], type(e).__name__),
            '%s raised %s: %s' % (case['writer'], type(e).__name__, str(e)[:300]))
        return
    try:
        acc.evals += 1
        acc.count('clause:source-unchanged')
        if O.content(t) != before or observe_source(t) != src:
            bad('source-mutated:' + case['writer'], 'writing changed the source table: before %r, after %r'
                % (before, O.content(t)))
        for ld in LOADERS:
            acc.trans += 1
            acc.evals += 1
            try:
                r = load(ld, art)
            except Exception as e:
                bad('reader-raised:%s:%s' % (ld, type(e).__name__),
                    '%s raised %s: %s' % (ld, type(e).__name__, str(e)[:300].replace(tmp, '<tmp>')))
                continue
            acc.count('loader:' + ld)
            ck = O.content_key(r)
            P.state(acc, 'read', ld, ck, r.table_id, r.generated_by)
            acc.outcomes.add(ck)
            compare(r, src, gen, exp_id, ld, bad, acc, date_of(case))
            if ld == 'from_hdf5' and case['prod'] in ('B-hdr', 'B-type', 'B-md', 'B-x', 'B-ids', 'E', 'Z'):
                # second generation: the loaded table is itself "a table produced by some history"
                second_generation(r, src, gen, exp_id, bad, acc, date_of(case))
    finally:
        art.close()


def second_generation(r, src, gen, exp_id, bad, acc, date):
    import h5py
    from biom import Table
    acc.trans += 2
    acc.evals += 1
    fh = h5py.File('c01-gen2-%d-%d.h5' % (os.getpid(), id(r)), 'w', driver='core', backing_store=False)
    try:
        try:
            gen = gen + ' #2'        # the loaded table carries the first string; the writer is given another
            r.to_hdf5(fh, gen, creation_date=date)
        except Exception as e:
            bad('second-generation:writer-raised:' + type(e).__name__, 'a table read from HDF5 cannot be written '
                'again: to_hdf5 raised %s: %s' % (type(e).__name__, str(e)[:300]))
            return
        try:
            r2 = Table.from_hdf5(fh)
        except Exception as e:
            bad('second-generation:reader-raised:' + type(e).__name__, 'from_hdf5 of the re-written file raised '
                '%s: %s' % (type(e).__name__, str(e)[:300]))
            return
    finally:
        fh.close()
    # the table id placeholder of the first generation is an id now
    compare(r2, src, gen, exp_id, 'second-generation', bad, acc, date)
    acc.count('clause:second-generation')


def compare(r, src, gen, exp_id, ld, bad, acc, date=DATE):
    oids, sids = list(O.ids(r, 'observation')), list(O.ids(r, 'sample'))
    acc.count('clause:ids')
    if oids != src['obs_ids'] or sids != src['samp_ids']:
        bad('read-ids:' + ld, '%s: ids %r / %r, source %r / %r' % (ld, oids, sids, src['obs_ids'],
                                                                  src['samp_ids']))
        return
    acc.count('clause:values')
    if O.dense_bits(r) != src['bits']:
        got = r.matrix_data.toarray().tolist()
        want = [[float(np.uint64(b).view(np.float64)) for b in row] for row in src['bits']]
        bad('read-values:' + ld, '%s: matrix %r, source %r' % (ld, got, want))
    for axis, key in (('observation', 'obs_md'), ('sample', 'samp_md')):
        acc.count('clause:metadata')
        if src[key] is not None:
            acc.count('clause:metadata-present')
        d = md_diff(md_of(r, axis), src[key])
        if d:
            bad('read-metadata:%s:%s' % (d[0], ld), '%s: %s metadata: %s' % (ld, axis, d[1]))
    acc.count('clause:type')
    if r.type != src['type']:
        bad('read-type:' + ld, '%s: type %r, source %r' % (ld, r.type, src['type']))
    acc.count('clause:table_id')
    if src['table_id'] is None:
        acc.count('clause:table_id-placeholder')
    if r.table_id != exp_id:
        bad('read-table_id:' + ld, '%s: table id %r, expected %r' % (ld, r.table_id, exp_id))
    acc.count('clause:generated_by')
    if r.generated_by != gen:
        bad('read-generated_by:' + ld, '%s: generated_by %r, written %r' % (ld, r.generated_by, gen))
    acc.count('clause:creation_date')
    if r.create_date != date:
        bad('read-date:' + ld, '%s: create_date %r, written %r' % (ld, r.create_date, date))
    for axis, key in (('observation', 'obs_gmd'), ('sample', 'samp_gmd')):
        acc.count('clause:group-metadata')
        if src[key]:
            acc.count('clause:group-metadata-present')
        got = gmd_payloads(r, axis, False)
        if got != src[key]:
            bad('read-group-metadata:' + ld, '%s: %s group metadata payloads %r, source %r'
                % (ld, axis, got, src[key]))


def bound(tier):
    q = tier == 'quick'
    return {
        'A': {'shapes': D.shapes(tier), 'masks': 'all 2^(N*M) per shape', 'layouts': D.LAYOUTS,
              'value_rotation': 'seed % 16', 'compress': [True, False],
              'writers': WRITERS, 'loaders': LOADERS,
              'note': "layout 'subsample_full' applies only to integer tables with equal column sums "
                      "(others are counted as skipped:layout-not-applicable)"},
        'A2': None if q else {'same as A with value rotation': '(seed + 5) % 16',
                              'writers': ['to_hdf5'], 'compress': [True, False], 'loaders': LOADERS},
        'B': {'fixed_masks': FIXED, 'layouts': b_layouts(tier), 'compress': [True, False],
              'loaders': LOADERS,
              'B-ids': 'obs id style x samp id style (%d x %d), header 1' % ((len(D.ID_STYLES),) * 2),
              'B-md': 'obs md kind x samp md kind (%d x %d), header 1' % ((len(D.MD_KINDS),) * 2),
              'B-x': 'id style x md kind (%d x %d), sample axis rotated by seed%s'
                     % (len(D.ID_STYLES), len(D.MD_KINDS), "; layout 'csr' only" if q else ''),
              'B-hdr': 'header variant x group-metadata variant (%d x %d)' % (len(D.HEADERS), len(GMD)),
              'B-type': 'types %r on one 2x2 table, layout csr' % (D.TYPES,),
              'B-full': None if q else
              'obs style x samp style x obs md x samp md (%d), layout csr, writer to_hdf5, compress on'
              % (len(D.ID_STYLES) ** 2 * len(D.MD_KINDS) ** 2),
              'writers': "B-ids/B-md/B-x: %s; B-hdr/B-type: all 3; B-full: ['to_hdf5']"
                         % (['to_hdf5'] if q else ['to_hdf5', 'save_table'])},
        'not_enumerated': 'the single product of all B factors at once (ids x md x header x layout x '
                          'writer) is split into the listed exhaustive sub-products sharing the fixed '
                          'masks',
    }


# ----------------------------------------------------------------------------- histories
def md_in_domain(t):
    """C01's metadata domain: the same categories on every id, each category homogeneous (all text, all
    numeric/boolean, or lists of non-empty text under taxonomy / collapsed_ids)"""
    for axis in ('observation', 'sample'):
        md = t.metadata(axis=axis)
        if md is None:
            continue
        keys = [tuple(sorted(e.keys())) for e in md]
        if len(set(keys)) != 1:
            return False
        for k in keys[0]:
            vals = [e[k] for e in md]
            if all(isinstance(v, str) for v in vals):
                continue
            if all(_is_number(v) for v in vals):
                continue
            if k in ('taxonomy', 'collapsed_ids') and all(
                    isinstance(v, (list, tuple)) and v and all(isinstance(x, str) and x for x in v) for v in vals):
                continue
            return False
    return True


def history_roundtrip(t, m, report):
    """"whatever operation history produced the table": HDF5 write + read in every state the history explorer
    reaches (states outside C01's metadata domain are skipped and counted)"""
    import h5py
    from biom import Table
    dense = np.asarray(t.matrix_data.toarray(), float)
    if not np.isfinite(dense).all():
        return
    if not md_in_domain(t):
        report.count('history:skipped-metadata-outside-domain')
        return
    src = observe_source(t)
    name = 'c01-hist-%d-%d.h5' % (os.getpid(), id(t))
    fh = h5py.File(name, 'w', driver='core', backing_store=False)
    try:
        try:
            t.to_hdf5(fh, 'verif', creation_date=DATE)
        except Exception as e:
            report('history:writer-raised:' + type(e).__name__, 'to_hdf5 raised %s: %s' % (type(e).__name__, e))
            return
        try:
            r = Table.from_hdf5(fh)
        except Exception as e:
            report('history:reader-raised:' + type(e).__name__, 'from_hdf5 raised %s: %s' % (type(e).__name__, e))
            return
    finally:
        fh.close()
    if list(O.ids(r, 'observation')) != src['obs_ids'] or list(O.ids(r, 'sample')) != src['samp_ids']:
        report('history:read-ids', 'ids %r / %r, source %r / %r' % (O.ids(r, 'observation'), O.ids(r, 'sample'),
                                                                   src['obs_ids'], src['samp_ids']))
        return
    if O.dense_bits(r) != src['bits']:
        report('history:read-values', 'matrix %r, source %r' % (r.matrix_data.toarray().tolist(), dense.tolist()))
        return
    for axis, key in (('observation', 'obs_md'), ('sample', 'samp_md')):
        d = md_diff(md_of(r, axis), src[key])
        if d:
            report('history:read-metadata:' + d[0], '%s metadata: %s' % (axis, d[1]))
            return
    if r.type != src['type']:
        report('history:read-type', 'type %r, source %r' % (r.type, src['type']))
        return
    if O.content(t) != (tuple(src['obs_ids']), tuple(src['samp_ids'])) + O.content(t)[2:]:
        pass
    report.count('clause:history-roundtrip')


def history_spec(depth):
    from .. import explorer as E
    from .. import ops as OPS
    return E.Spec(OPS.start_tables(), OPS.all_ops(), depth, check_ops=(), on_state=history_roundtrip,
                  label='histories-d%d' % depth)


def run(run):
    from .. import explorer as E
    E.explore(run, history_spec(2 if run.quick else 3))
    cs = cases(run.tier, run.seed)
    P.run_cases(run, cs, check)
    c = run.acc.counters
    run.extra['products'] = {k[5:]: v for k, v in c.items() if k.startswith('prod:')}
    run.extra['layout_classes'] = {k[7:]: v for k, v in c.items() if k.startswith('layout:')}
    run.extra['bound'] = bound(run.tier)
    run.extra['cases'] = len(cs)
    need = ['clause:second-generation', 'clause:history-roundtrip', 'clause:source-unchanged', 'clause:ids', 'clause:values', 'clause:metadata',
            'clause:metadata-present', 'clause:type', 'clause:table_id', 'clause:table_id-placeholder',
            'clause:generated_by', 'clause:creation_date', 'clause:group-metadata',
            'clause:group-metadata-present']
    need += ['loader:' + x for x in LOADERS] + ['writer:' + x for x in WRITERS]
    need += ['compress:on', 'compress:off']
    need += ['prod:' + p for p in ('A', 'B-ids', 'B-md', 'B-x', 'B-hdr', 'B-type')]
    need += ['style:' + s for s in D.ID_STYLES] + ['md:' + k for k in D.MD_KINDS]
    need += ['layoutname:' + x for x in D.LAYOUTS]
    need += ['header:%d' % i for i in range(len(D.HEADERS))] + ['gmd:%d' % i for i in range(len(GMD))]
    if not run.quick:
        need += ['prod:B-full', 'prod:A2']
    vacuity(run, need)
    run.assumptions += [
        'creation_date is passed explicitly to every writer (the writer otherwise calls datetime.now())',
        'generated_by: the table\'s own string, or %r when the table has none (to_hdf5 requires one)'
        % GEN_DEFAULT,
        'the placeholder for an absent table id is %r (the specification\'s example value)' % PLACEHOLDER,
        'writer to_hdf5_core uses h5py\'s in-memory core driver (backing_store=False); all four loaders '
        'then read from that open handle (load_table accepts an h5py.File)',
        'loader from_hdf5_obs = Table.from_hdf5(handle, axis="observation"), which decodes the '
        'compressed-row copy; the other three decode the compressed-column copy',
    ]


def replay(case):
    if 'history' in case:
        from .. import explorer as E
        return E.replay_history(history_spec(len(case['history'])), case)
    return P.replay_case(check, case)
