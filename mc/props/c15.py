"""C15 – the validator accepts what the library writes and rejects structural corruption.

Engine E4 (fault / mutation enumerator).

Seed documents are tables of the shared domain with a vocabulary type, written by the
library as JSON (`to_json`) and as HDF5 (`to_hdf5`).  A mutation *operator* is a small
named edit of the parsed JSON document (re-serialised with json.dumps) or of a copy of
the HDF5 file through raw h5py.  Every operator is tagged must-reject or neutral and
belongs to a corruption *class*; every class has a *detector*, a few lines of plain
Python / raw h5py that decide on the mutated artefact itself – without any library code –
whether that corruption is present.  For single mutations the detector of the operator's
class must fire (a self-check of the grammar: otherwise HARNESS-ERROR); for ordered pairs
the detectors decide (the second mutation may undo the first, e.g. shape+1 then shape-1 –
such pairs are counted as `pair:cancelled`, nothing is demanded of them).

Oracle
  (1) every seed is reported valid by `_validate_table(path, format_version)`;
  (2) an artefact in which at least one must-reject class is present is never *reported
      valid*; a crash / exception / sys.exit of the validator counts as "not reported
      valid" and is tallied separately;   signature  accepted:<fmt>:<class>
  (3) every JSON artefact with a numeric element type that IS reported valid loads with
      biom.load_table, and the loaded shape / ids / values equal an independent decode of
      the document (dense rows, or summed sparse triples);
      signatures  valid-but-unloadable:json:<culprit>, loaded-differs:json:<culprit>:<what>
      where culprit = the corruption classes present, else the neutral operators applied,
      else `seed`.
Signatures name classes / operators, never seeds.
"""
import datetime
import itertools
import json
import os
import shutil
import subprocess
import sys

import numpy as np

from .. import domain as D
from .. import pipeline as P
from ..core import h64, vacuity
from .c14 import guarded_run_cases

LEVEL = 'fault_enumeration'
RULE = ('for every seed document (library-written JSON / HDF5 of a domain table with a vocabulary type) '
        'every single operator of the mutation grammar and every ordered pair of operators (second applied '
        'to the output of the first; inapplicable ones counted and skipped) is applied, the real validator '
        'is run on the artefact, and – JSON, numeric element type, reported valid – the real loader; '
        'independent per-class detectors decide which corruptions the artefact carries.  A case is '
        'non-trivial when the mutated artefact differs from its seed; distinct by (format, seed, '
        'operator sequence)')

VOCAB = D.TYPES[1:]
GEN = 'verif-harness c15'
DATE = datetime.datetime(2021, 3, 4, 5, 6, 7, 891011)
JSON_KEYS = ['id', 'format', 'format_url', 'type', 'generated_by', 'date', 'rows', 'columns',
             'matrix_type', 'matrix_element_type', 'shape', 'data']
H5_ATTRS = ['format-url', 'format-version', 'type', 'shape', 'nnz', 'generated-by', 'id', 'creation-date']
H5_GROUPS = ['observation', 'sample', 'observation/matrix', 'sample/matrix', 'observation/metadata',
             'sample/metadata', 'observation/group-metadata', 'sample/group-metadata']
H5_DATASETS = ['observation/ids', 'observation/matrix/data', 'observation/matrix/indices',
               'observation/matrix/indptr', 'sample/ids', 'sample/matrix/data', 'sample/matrix/indices',
               'sample/matrix/indptr']
AXES = ('observation', 'sample')


# ========================================================================= seeds
def mutation_seeds(tier, seed):
    """(json seed specs, hdf5 seed specs) – the documents that are mutated"""
    rot = seed % len(D.HARD)

    def ty(k):
        return VOCAB[(k + seed) % len(VOCAB)]
    j = [
        {'shape': [2, 3], 'mask': 0b101101, 'obs_md': 'taxonomy', 'samp_md': 'text', 'header': 1},
        {'shape': [3, 2], 'mask': 0b111111, 'obs_style': 'natsort', 'samp_style': 'natsort', 'header': 1},
        {'shape': [2, 2], 'mask': 0, 'obs_md': 'text', 'header': 1},
        {'shape': [1, 1], 'mask': 1, 'samp_md': 'int', 'header': 1},
        {'shape': [2, 3], 'mask': 0b010011, 'obs_style': 'punct', 'samp_style': 'punct', 'obs_md': 'textodd',
         'samp_md': 'textodd', 'header': 2},
        {'shape': [3, 2], 'mask': 0b011010, 'obs_style': 'nonascii', 'samp_style': 'nonascii', 'obs_md': 'int',
         'samp_md': 'float', 'header': 1},
        {'shape': [2, 2], 'mask': 0b1001, 'obs_style': 'numeric', 'samp_style': 'numeric', 'obs_md': 'bool',
         'samp_md': 'two', 'header': 1},
        {'shape': [3, 3], 'mask': 0b100010001, 'obs_style': 'slash', 'samp_style': 'slash',
         'obs_md': 'taxonomy_ragged', 'samp_md': 'collapsed_ids', 'header': 1},
        {'shape': [1, 2], 'mask': 0b11, 'obs_style': 'long', 'samp_style': 'long', 'header': 1},
        {'shape': [2, 1], 'mask': 0b10, 'obs_style': 'mixedwidth', 'samp_style': 'mixedwidth',
         'obs_md': 'slashkey', 'header': 1},
        {'shape': [3, 3], 'mask': 0b111101111, 'obs_md': 'two', 'samp_md': 'taxonomy', 'header': 2},
        {'shape': [2, 3], 'mask': 0b111000, 'obs_md': 'float', 'samp_md': 'bool', 'header': 1},
        {'shape': [0, 0], 'mask': 0, 'header': 1},          # the empty table: both axes have length zero
        {'shape': [0, 2], 'mask': 0, 'header': 1},
        {'shape': [2, 0], 'mask': 0, 'header': 1},
    ]
    h = [
        {'shape': [2, 3], 'mask': 0b101101, 'obs_md': 'taxonomy', 'samp_md': 'two', 'header': 1},
        {'shape': [3, 2], 'mask': 0b011010, 'obs_style': 'nonascii', 'samp_style': 'nonascii', 'header': 1},
        {'shape': [2, 2], 'mask': 0, 'obs_md': 'text', 'samp_md': 'text', 'header': 1},
        {'shape': [3, 3], 'mask': 0b110011101, 'obs_style': 'natsort', 'samp_style': 'natsort',
         'obs_md': 'float', 'samp_md': 'text', 'header': 2},
        # one axis (or both) of length zero: the library writes such files and reports them valid
        {'shape': [0, 2], 'mask': 0, 'header': 1},
        {'shape': [2, 0], 'mask': 0, 'header': 1},
        {'shape': [0, 0], 'mask': 0, 'header': 1},
    ]
    for k, s in enumerate(j):
        s.update({'rot': rot, 'pool': 'hard', 'type': ty(k)})
    for k, s in enumerate(h):
        s.update({'rot': rot, 'pool': 'hard', 'type': ty(k + 3)})
    return j, h


def validity_seeds(tier, seed):
    """the larger family that is only validated (oracle clause 1)"""
    rot = seed % len(D.HARD)
    out = []
    k = 0
    shapes = [(1, 1), (1, 2), (2, 1), (2, 2), (2, 3)] + ([(3, 2), (3, 3)] if tier == 'thorough' else [])
    for shape in shapes:
        for mask in D.masks(shape):
            out.append({'shape': list(shape), 'mask': mask, 'rot': rot, 'pool': 'hard', 'header': 1,
                        'obs_md': 'taxonomy', 'samp_md': 'text', 'type': VOCAB[(k + seed) % len(VOCAB)]})
            k += 1
    # tables that are held column-compressed / with unsorted indices when they are written
    for shape in ((3, 2), (2, 3)):
        for mask in D.masks(shape):
            for lay in ('csc', 'unsorted'):
                out.append({'shape': list(shape), 'mask': mask, 'rot': rot, 'pool': 'hard', 'header': 1,
                            'layout': lay, 'type': VOCAB[(k + seed) % len(VOCAB)]})
                k += 1
    for st, mk in itertools.product(D.ID_STYLES, D.MD_KINDS):
        out.append({'shape': [2, 3], 'mask': 0b110101, 'rot': rot, 'pool': 'hard', 'header': 1 + (k % 2),
                    'obs_style': st, 'samp_style': st, 'obs_md': mk,
                    'samp_md': D.MD_KINDS[(D.MD_KINDS.index(mk) + 1 + seed) % len(D.MD_KINDS)],
                    'type': VOCAB[(k + seed) % len(VOCAB)]})
        k += 1
    return out


# ========================================================================= JSON grammar
class Op:
    def __init__(self, name, cls, tag, fn):
        self.name, self.cls, self.tag, self.fn = name, cls, tag, fn     # tag: 'R' must-reject | 'N' neutral


def _isint(x):
    return isinstance(x, int) and not isinstance(x, bool)


def _isnum(x):
    return isinstance(x, (int, float)) and not isinstance(x, bool)


def _shape(doc):
    s = doc.get('shape')
    if isinstance(s, list) and len(s) == 2 and all(_isint(v) for v in s):
        return s
    return None


def _recs(doc, axis):
    r = doc.get(axis)
    if isinstance(r, list) and r and all(isinstance(x, dict) for x in r):
        return r
    return None


def _triples(doc):
    """well-formed [r, c, v] entries of a sparse document (for detectors)"""
    d = doc.get('data')
    if doc.get('matrix_type') != 'sparse' or not isinstance(d, list):
        return None
    return d


def _values(doc):
    d = doc.get('data')
    if not isinstance(d, list):
        return None
    if doc.get('matrix_type') == 'sparse':
        return [e[2] for e in d if isinstance(e, list) and len(e) == 3]
    if doc.get('matrix_type') == 'dense':
        return [v for row in d if isinstance(row, list) for v in row]
    return None


def _dense_conformant(doc):
    s, d = _shape(doc), doc.get('data')
    return s is not None and isinstance(d, list) and len(d) == s[0] and \
        all(isinstance(r, list) and len(r) == s[1] for r in d)


def json_ops():
    ops = []

    def add(name, cls, tag, fn):
        ops.append(Op(name, cls, tag, fn))

    # ---- required top-level keys
    for k in JSON_KEYS:
        def dele(doc, k=k):
            if k not in doc:
                return False
            del doc[k]

        def ren(doc, k=k):
            if k not in doc:
                return False
            doc[k + '_x'] = doc.pop(k)
        add('delete-key:' + k, 'missing-key:' + k, 'R', dele)
        add('rename-key:' + k, 'missing-key:' + k, 'R', ren)

    # ---- row / column records
    def rec_op(axis, pos, edit, need2=False):
        def fn(doc):
            r = _recs(doc, axis)
            if r is None or (pos == 'last' and len(r) < 2) or (need2 and len(r) < 2):
                return False
            i, o = (0, len(r) - 1) if pos == 'first' else (len(r) - 1, 0)
            return edit(r[i], r[o])
        return fn

    def e_del(key):
        def e(rec, other):
            if key not in rec:
                return False
            del rec[key]
        return e

    def e_set(key, val):
        def e(rec, other):
            if key not in rec or rec[key] == val:
                return False
            rec[key] = val
        return e

    def e_dup(rec, other):
        if 'id' not in rec or 'id' not in other or rec['id'] == other['id']:
            return False
        rec['id'] = other['id']
    for axis, a in (('rows', 'row'), ('columns', 'column')):
        for pos in ('first', 'last'):
            add('delete-%s-id:%s' % (a, pos), '%s-missing-id' % a, 'R', rec_op(axis, pos, e_del('id')))
            add('delete-%s-metadata:%s' % (a, pos), '%s-missing-metadata' % a, 'R',
                rec_op(axis, pos, e_del('metadata')))
            add('blank-%s-id:%s' % (a, pos), 'blank-%s-id' % a, 'R', rec_op(axis, pos, e_set('id', '')))
            add('null-%s-id:%s' % (a, pos), 'null-%s-id' % a, 'R', rec_op(axis, pos, e_set('id', None)))
            add('duplicate-%s-id:%s' % (a, pos), 'duplicate-%s-id' % a, 'R', rec_op(axis, pos, e_dup, True))
            add('%s-metadata-list:%s' % (a, pos), '%s-metadata-list' % a, 'R',
                rec_op(axis, pos, e_set('metadata', ['a', 'b'])))
            add('%s-metadata-string:%s' % (a, pos), '%s-metadata-string' % a, 'R',
                rec_op(axis, pos, e_set('metadata', 'text')))
            add('%s-metadata-number:%s' % (a, pos), '%s-metadata-number' % a, 'R',
                rec_op(axis, pos, e_set('metadata', 7)))

    # ---- shape
    def sh(edit):
        def fn(doc):
            s = _shape(doc)
            if s is None:
                return False
            doc['shape'] = edit(list(s))
        return fn
    add('shape-rows+1', 'shape-rows-mismatch', 'R', sh(lambda s: [s[0] + 1, s[1]]))
    add('shape-rows-1', 'shape-rows-mismatch', 'R', sh(lambda s: [s[0] - 1, s[1]]))
    add('shape-cols+1', 'shape-cols-mismatch', 'R', sh(lambda s: [s[0], s[1] + 1]))
    add('shape-cols-1', 'shape-cols-mismatch', 'R', sh(lambda s: [s[0], s[1] - 1]))
    add('shape-float', 'shape-non-integer', 'R', sh(lambda s: [float(s[0]), float(s[1])]))
    add('shape-string', 'shape-non-integer', 'R', sh(lambda s: [str(s[0]), str(s[1])]))
    add('shape-short', 'shape-wrong-length', 'R', sh(lambda s: [s[0]]))
    add('shape-long', 'shape-wrong-length', 'R', sh(lambda s: [s[0], s[1], 1]))

    # ---- appended sparse entries
    def app(make):
        def fn(doc):
            d, s = _triples(doc), _shape(doc)
            if d is None or s is None:
                return False
            d.append(make(s))
        return fn
    V = 1.5
    add('coord-row-beyond-shape', 'coord-row-out-of-range', 'R', app(lambda s: [s[0], 0, V]))
    add('coord-col-beyond-shape', 'coord-col-out-of-range', 'R', app(lambda s: [0, s[1], V]))
    add('coord-row-negative', 'coord-negative', 'R', app(lambda s: [-1, 0, V]))
    add('coord-col-negative', 'coord-negative', 'R', app(lambda s: [0, -1, V]))
    add('coord-float-index', 'coord-non-integer', 'R', app(lambda s: [0.0, 0, V]))
    add('coord-boolean-index', 'coord-boolean', 'R', app(lambda s: [0, True, V]))
    add('coord-too-short', 'coord-wrong-length', 'R', app(lambda s: [0, 0]))
    add('coord-too-long', 'coord-wrong-length', 'R', app(lambda s: [0, 0, V, V]))

    def val(v, need_float=False):
        def fn(doc):
            d, s = _triples(doc), _shape(doc)
            et = doc.get('matrix_element_type')
            if d is None or s is None or et not in ('int', 'float') or (need_float and et != 'float'):
                return False
            d.append([0, 0, v])
        return fn
    add('value-string', 'value-string', 'R', val('x'))
    add('value-null', 'value-null', 'R', val(None))
    add('value-int-in-float', 'value-int-in-float', 'R', val(1, True))

    # ---- matrix / element type
    def mt_dense(doc):
        if doc.get('matrix_type') != 'sparse':
            return False
        doc['matrix_type'] = 'dense'
        if _dense_conformant(doc):       # triples happen to form a shape-conformant dense matrix
            doc['matrix_type'] = 'sparse'
            return False

    def setkey(key, val):
        def fn(doc):
            if key not in doc or doc[key] == val:
                return False
            doc[key] = val
        return fn
    add('matrix-type-dense-with-sparse-data', 'matrix-type-data-mismatch', 'R', mt_dense)
    add('matrix-type-unknown', 'matrix-type-unknown', 'R', setkey('matrix_type', 'bogus'))
    add('element-type-unknown', 'element-type-unknown', 'R', setkey('matrix_element_type', 'bogus'))

    def et_int(doc):
        vals = _values(doc)
        if doc.get('matrix_element_type') != 'float' or not vals or \
                not any(isinstance(v, float) and v != int(v) for v in vals if _isnum(v) and abs(v) < 1e15):
            return False
        doc['matrix_element_type'] = 'int'

    def et_uni(doc):
        vals = _values(doc)
        if doc.get('matrix_element_type') not in ('int', 'float') or not vals or \
                not any(_isnum(v) for v in vals):
            return False
        doc['matrix_element_type'] = 'unicode'
    add('element-type-int-with-fractions', 'element-type-int-with-fractions', 'R', et_int)
    add('element-type-unicode-with-numbers', 'element-type-unicode-with-numbers', 'R', et_uni)

    # ---- header fields
    add('date-corrupt', 'date-corrupt', 'R', setkey('date', 'yesterday at noon'))
    add('format-corrupt', 'format-corrupt', 'R', setkey('format', 'foo'))
    add('format-url-corrupt', 'format-url-corrupt', 'R', setkey('format_url', 'http://example.org/other'))
    add('type-unknown', 'type-unknown', 'R', setkey('type', 'Bogus table'))
    add('generated-by-empty', 'generated-by-empty', 'R', setkey('generated_by', ''))

    # ---- neutral
    def reorder(doc):
        items = list(doc.items())[::-1]
        doc.clear()
        for k, v in items:
            doc[k] = v
        for axis in ('rows', 'columns'):
            r = doc.get(axis)
            if isinstance(r, list):
                for i, rec in enumerate(r):
                    if isinstance(rec, dict):
                        r[i] = dict(list(rec.items())[::-1])

    def unknown_key(doc):
        if 'comment' in doc:
            return False
        doc['comment'] = 'free text'

    def data_empty(doc):
        vals = _values(doc)
        if _triples(doc) is None or vals is None or any(v != 0 for v in vals if _isnum(v)) or \
                len(vals) != len(doc['data']):
            return False
        doc['data'] = []

    def dup_coord(doc):
        d = _triples(doc)
        if not d or not (isinstance(d[0], list) and len(d[0]) == 3):
            return False
        d.append(list(d[0]))
    add('reorder-keys', 'reorder-keys', 'N', reorder)
    add('add-unknown-key', 'add-unknown-key', 'N', unknown_key)
    add('data-empty-for-all-zero-table', 'data-empty-for-all-zero-table', 'N', data_empty)
    add('duplicate-coordinate', 'duplicate-coordinate', 'N', dup_coord)
    return ops


VOCAB_LOWER = {t.lower() for t in VOCAB}


def json_detect(doc):
    """set of must-reject corruption classes present in a JSON document (plain Python)"""
    out = set()
    if not isinstance(doc, dict):
        return {'not-an-object'}
    for k in JSON_KEYS:
        if k not in doc:
            out.add('missing-key:' + k)
    for axis, a in (('rows', 'row'), ('columns', 'column')):
        r = doc.get(axis)
        if not isinstance(r, list):
            continue
        ids = []
        for rec in r:
            if not isinstance(rec, dict):
                continue
            if 'id' not in rec:
                out.add('%s-missing-id' % a)
            else:
                if rec['id'] == '':
                    out.add('blank-%s-id' % a)
                elif rec['id'] is None:
                    out.add('null-%s-id' % a)
                else:
                    ids.append(rec['id'])
            if 'metadata' not in rec:
                out.add('%s-missing-metadata' % a)
            else:
                m = rec['metadata']
                if isinstance(m, list):
                    out.add('%s-metadata-list' % a)
                elif isinstance(m, str):
                    out.add('%s-metadata-string' % a)
                elif _isnum(m):
                    out.add('%s-metadata-number' % a)
        if len(set(map(repr, ids))) != len(ids):
            out.add('duplicate-%s-id' % a)
    if 'shape' in doc:
        s = doc['shape']
        if not isinstance(s, list) or len(s) != 2:
            out.add('shape-wrong-length')
        elif not all(_isint(v) for v in s):
            out.add('shape-non-integer')
        else:
            if isinstance(doc.get('rows'), list) and len(doc['rows']) != s[0]:
                out.add('shape-rows-mismatch')
            if isinstance(doc.get('columns'), list) and len(doc['columns']) != s[1]:
                out.add('shape-cols-mismatch')
    mt, et = doc.get('matrix_type'), doc.get('matrix_element_type')
    if 'matrix_type' in doc and mt not in ('sparse', 'dense'):
        out.add('matrix-type-unknown')
    if 'matrix_element_type' in doc and et not in ('int', 'float', 'unicode', 'str'):
        out.add('element-type-unknown')
    s = _shape(doc)
    d = doc.get('data')
    if mt == 'dense' and s is not None and isinstance(d, list) and not _dense_conformant(doc):
        out.add('matrix-type-data-mismatch')
    if mt == 'sparse' and isinstance(d, list):
        for e in d:
            if not isinstance(e, list) or len(e) != 3:
                out.add('coord-wrong-length')
                continue
            r, c, v = e
            if isinstance(r, bool) or isinstance(c, bool):
                out.add('coord-boolean')
            elif not (_isint(r) and _isint(c)):
                out.add('coord-non-integer')
            else:
                if r < 0 or c < 0:
                    out.add('coord-negative')
                if s is not None and r >= s[0]:
                    out.add('coord-row-out-of-range')
                if s is not None and c >= s[1]:
                    out.add('coord-col-out-of-range')
    vals = _values(doc)
    if vals is not None and mt in ('sparse', 'dense'):
        if et in ('int', 'float'):
            if any(isinstance(v, str) for v in vals):
                out.add('value-string')
            if any(v is None for v in vals):
                out.add('value-null')
        if et == 'float' and any(_isint(v) for v in vals):
            out.add('value-int-in-float')
        if et == 'int' and any(isinstance(v, float) and abs(v) < 1e15 and v != int(v) for v in vals):
            out.add('element-type-int-with-fractions')
        if et == 'unicode' and any(_isnum(v) for v in vals):
            out.add('element-type-unicode-with-numbers')
    if 'date' in doc:
        try:
            datetime.datetime.fromisoformat(doc['date'])
        except Exception:
            out.add('date-corrupt')
    if 'format' in doc and not (isinstance(doc['format'], str) and '1.0' in doc['format']):
        out.add('format-corrupt')
    if 'format_url' in doc and doc['format_url'] != 'http://biom-format.org':
        out.add('format-url-corrupt')
    if 'type' in doc and isinstance(doc['type'], str) and doc['type'] and \
            doc['type'].lower() not in VOCAB_LOWER:
        out.add('type-unknown')
    if 'generated_by' in doc and doc['generated_by'] == '':
        out.add('generated-by-empty')
    return out


def json_decode(doc):
    """independent decode of a document the validator accepted: (obs ids, samp ids, dense)"""
    oids = [r['id'] for r in doc['rows']]
    sids = [c['id'] for c in doc['columns']]
    n, m = doc['shape']
    dense = [[0.0] * m for _ in range(n)]
    if doc['matrix_type'] == 'sparse':
        for r, c, v in doc['data']:
            dense[r][c] += float(v)
    else:
        for i, row in enumerate(doc['data']):
            for j, v in enumerate(row):
                dense[i][j] = float(v)
    return oids, sids, (n, m), dense


# ========================================================================= HDF5 grammar
def _short(name):
    """axis-free class name: 'observation/matrix/data' -> 'matrix/data', 'sample' -> 'axis-group'"""
    if name in AXES:
        return 'axis-group'
    return name.split('/', 1)[1]


def hdf5_ops():
    import h5py
    from biom.util import H5PY_VLEN_STR
    ops = []

    def add(name, cls, fn, tag='R'):
        ops.append(Op(name, cls, tag, fn))

    for a in H5_ATTRS:
        def dele(f, a=a):
            if a not in f.attrs:
                return False
            del f.attrs[a]

        def ren(f, a=a):
            if a not in f.attrs:
                return False
            f.attrs[a + '-x'] = f.attrs[a]
            del f.attrs[a]
        add('delete-attr:' + a, 'missing-attr:' + a, dele)
        add('rename-attr:' + a, 'missing-attr:' + a, ren)
    for kind, names, typ in (('group', H5_GROUPS, h5py.Group), ('dataset', H5_DATASETS, h5py.Dataset)):
        for g in names:
            def dele(f, g=g, typ=typ):
                if g not in f or not isinstance(f[g], typ):
                    return False
                del f[g]

            def ren(f, g=g, typ=typ):
                if g not in f or not isinstance(f[g], typ):
                    return False
                f.move(g, g + '_x')
            add('delete-%s:%s' % (kind, g), 'missing-%s:%s' % (kind, _short(g)), dele)
            add('rename-%s:%s' % (kind, g), 'missing-%s:%s' % (kind, _short(g)), ren)

    def shape_edit(i, d):
        def fn(f):
            if 'shape' not in f.attrs:
                return False
            s = np.array(f.attrs['shape'])
            if s.shape != (2,) or s.dtype.kind not in 'iu':
                return False
            s = s.copy()
            s[i] += d
            f.attrs['shape'] = s
        return fn
    for i, ax in enumerate(AXES):
        add('shape+1:' + ax, 'shape-vs-ids', shape_edit(i, +1))
        add('shape-1:' + ax, 'shape-vs-ids', shape_edit(i, -1))

    def ids_edit(ax, edit):
        def fn(f):
            p = ax + '/ids'
            if p not in f or not isinstance(f[p], h5py.Dataset):
                return False
            ids = list(f[p][:])
            new = edit(ids)
            if new is None:
                return False
            del f[p]
            f.create_dataset(p, shape=(len(new),), dtype=H5PY_VLEN_STR, data=new)
        return fn

    def dup(ids):
        if len(ids) < 2 or ids[-1] == ids[0]:
            return None
        return ids[:-1] + [ids[0]]

    def blank(ids):
        if not ids or ids[0] == b'':
            return None
        return [b''] + ids[1:]
    for ax in AXES:
        add('truncate-ids:' + ax, 'shape-vs-ids', ids_edit(ax, lambda ids: ids[:-1] if len(ids) > 1 else None))
        add('extend-ids:' + ax, 'shape-vs-ids', ids_edit(ax, lambda ids: ids + [b'an-extra-id']))
        add('duplicate-id:' + ax, 'duplicate-id', ids_edit(ax, dup))
        add('blank-id:' + ax, 'blank-id', ids_edit(ax, blank))

    def retype(p, dt, want_kind):
        def fn(f):
            if p not in f or not isinstance(f[p], h5py.Dataset) or f[p].dtype.kind not in want_kind:
                return False
            v = f[p][:]
            del f[p]
            f.create_dataset(p, data=v.astype(dt))
        return fn
    for ax in AXES:
        add('dtype-int32:%s/matrix/data' % ax, 'dtype:matrix/data', retype(ax + '/matrix/data', np.int32, 'f'))
        add('dtype-float64:%s/matrix/indices' % ax, 'dtype:matrix/indices',
            retype(ax + '/matrix/indices', np.float64, 'iu'))
        add('dtype-float64:%s/matrix/indptr' % ax, 'dtype:matrix/indptr',
            retype(ax + '/matrix/indptr', np.float64, 'iu'))

    def poke(p, i, edit):
        def fn(f):
            if p not in f or not isinstance(f[p], h5py.Dataset) or f[p].dtype.kind not in 'iu' or \
                    f[p].shape[0] == 0:
                return False
            v = f[p][:]
            v[i] = edit(v[i])
            f[p][...] = v
        return fn
    for ax in AXES:
        add('index-beyond-shape:' + ax, 'index-out-of-range', poke(ax + '/matrix/indices', 0, lambda x: 1000))
        add('indptr-end+1:' + ax, 'indptr-end', poke(ax + '/matrix/indptr', -1, lambda x: x + 1))

    def md_len(ax):
        def fn(f):
            g = ax + '/metadata'
            if g not in f or not isinstance(f[g], h5py.Group) or not len(f[g]):
                return False
            name = sorted(f[g])[0]
            ds = f[g][name]
            if not isinstance(ds, h5py.Dataset) or ds.shape[0] < 1:
                return False
            v, dt = ds[:], ds.dtype
            del f[g][name]
            f[g].create_dataset(name, data=v[:-1], dtype=dt)
        return fn
    for ax in AXES:
        add('metadata-dataset-truncated:' + ax, 'metadata-length', md_len(ax))

    def setattr_(a, val):
        def fn(f):
            if a not in f.attrs:
                return False
            f.attrs[a] = val
        return fn
    add('format-version-9.9', 'format-version-wrong', setattr_('format-version', np.array([9, 9])))
    add('creation-date-bad', 'creation-date-bad', setattr_('creation-date', 'yesterday at noon'))
    add('nnz-negative', 'nnz-negative', setattr_('nnz', np.int64(-1)))
    add('nnz-non-integer', 'nnz-non-integer', setattr_('nnz', np.float64(2.5)))
    return ops


def hdf5_detect(path):
    """set of must-reject corruption classes present in an HDF5 file (raw h5py only)"""
    import h5py
    out = set()
    with h5py.File(path, 'r') as f:
        for a in H5_ATTRS:
            if a not in f.attrs:
                out.add('missing-attr:' + a)
        for g in H5_GROUPS:
            if g not in f or not isinstance(f[g], h5py.Group):
                out.add('missing-group:' + _short(g))
        for d in H5_DATASETS:
            if d not in f or not isinstance(f[d], h5py.Dataset):
                out.add('missing-dataset:' + _short(d))

        def ds(p):
            return f[p] if p in f and isinstance(f[p], h5py.Dataset) else None
        shape = None
        if 'shape' in f.attrs:
            s = np.array(f.attrs['shape'])
            if s.shape == (2,) and s.dtype.kind in 'iu':
                shape = [int(s[0]), int(s[1])]
        n_ids = {}
        for i, ax in enumerate(AXES):
            ids = ds(ax + '/ids')
            if ids is not None:
                vals = list(ids[:])
                n_ids[ax] = len(vals)
                if shape is not None and len(vals) != shape[i]:
                    out.add('shape-vs-ids')
                if len(set(vals)) != len(vals):
                    out.add('duplicate-id')
                if any(v in (b'', '') for v in vals):
                    out.add('blank-id')
        for i, ax in enumerate(AXES):
            data, ind, ptr = ds(ax + '/matrix/data'), ds(ax + '/matrix/indices'), ds(ax + '/matrix/indptr')
            if data is not None and data.dtype.kind != 'f':
                out.add('dtype:matrix/data')
            if ind is not None and ind.dtype.kind not in 'iu':
                out.add('dtype:matrix/indices')
            if ptr is not None and ptr.dtype.kind not in 'iu':
                out.add('dtype:matrix/indptr')
            other = AXES[1 - i]
            bound = shape[1 - i] if shape is not None else n_ids.get(other)
            if ind is not None and ind.dtype.kind in 'iu' and bound is not None and ind.shape[0]:
                v = ind[:]
                if v.max() >= bound or v.min() < 0:
                    out.add('index-out-of-range')
            if ptr is not None and data is not None and ptr.dtype.kind in 'iu' and ptr.shape[0]:
                if int(ptr[-1]) != data.shape[0]:
                    out.add('indptr-end')
            g = ax + '/metadata'
            if g in f and isinstance(f[g], h5py.Group) and ax in n_ids:
                for name in f[g]:
                    if isinstance(f[g][name], h5py.Dataset) and f[g][name].shape[0] != n_ids[ax]:
                        out.add('metadata-length')
        if 'format-version' in f.attrs:
            try:
                v = tuple(int(x) for x in f.attrs['format-version'])
            except Exception:
                v = None
            if v not in ((2, 1), (2, 1, 0)):
                out.add('format-version-wrong')
        if 'creation-date' in f.attrs:
            cd = f.attrs['creation-date']
            if isinstance(cd, bytes):
                cd = cd.decode('utf-8', 'replace')
            try:
                datetime.datetime.fromisoformat(cd)
            except Exception:
                out.add('creation-date-bad')
        if 'nnz' in f.attrs:
            nnz = f.attrs['nnz']
            if not np.issubdtype(np.asarray(nnz).dtype, np.integer):
                out.add('nnz-non-integer')
            elif nnz < 0:
                out.add('nnz-negative')
    return out


# ========================================================================= per-worker caches
_OPS = {}
_SEEDS = {}


def ops_of(fmt):
    if fmt not in _OPS:
        lst = json_ops() if fmt == 'json' else hdf5_ops()
        _OPS[fmt] = (lst, {o.name: o for o in lst})
    return _OPS[fmt]


def seed_artefact(fmt, spec, tmp, acc, variant=''):
    """the library-written seed: JSON text or an HDF5 file path (cached per worker directory).
    variant: '' = returned string / compressed file with a given creation date; the other ways the library
    writes the same table are 'direct' (JSON streamed into a file object), 'today' (no creation date given),
    'direct-today', 'plain' (HDF5 without compression), 'write_biom_table' (the helper behind the commands)"""
    import io
    import h5py
    key = (fmt, tmp, json.dumps(spec, sort_keys=True), variant)
    if key in _SEEDS:
        return _SEEDS[key]
    t = D.build(spec)
    acc.trans += 1
    datekw = {} if 'today' in variant else {'creation_date': DATE}
    if variant == 'write_biom_table':
        from biom.cli.util import write_biom_table
        art = os.path.join(tmp, 'seedw_%s_%016x.biom' % (fmt, h64(key[2])))
        write_biom_table(t, fmt, art)
        if fmt == 'json':
            p_ = art
            art = open(p_, encoding='utf-8').read()
            os.unlink(p_)
    elif fmt == 'json':
        if 'direct' in variant:
            buf = io.StringIO()
            t.to_json(GEN, direct_io=buf, **datekw)
            art = buf.getvalue()
        else:
            art = t.to_json(GEN, **datekw)
    else:
        art = os.path.join(tmp, 'seed%s_%016x.h5' % (variant, h64(key[2])))
        with h5py.File(art, 'w') as f:
            t.to_hdf5(f, GEN, compress=(variant != 'plain'), **datekw)
    if variant == '':
        _SEEDS[key] = art
    return art


_SEED_LOADS = {}


def seed_loads(seed_text, tmp):
    """does the unmutated JSON seed load? (only used to attribute clause-3 failures)"""
    from biom import load_table
    k = h64(seed_text)
    if k not in _SEED_LOADS:
        p = os.path.join(tmp, 'sl_%016x.biom' % k)
        with open(p, 'w', encoding='utf-8') as fh:
            fh.write(seed_text)
        try:
            load_table(p)
            _SEED_LOADS[k] = True
        except (Exception, SystemExit):
            _SEED_LOADS[k] = False
        os.unlink(p)
    return _SEED_LOADS[k]


def validate(path, acc, fmt, version=None):
    """-> ('valid'|'invalid'|'crash', report / exception text)"""
    from biom.cli.table_validator import _validate_table
    acc.trans += 1
    try:
        valid, report = _validate_table(path, version)
    except (Exception, SystemExit) as e:
        acc.count('validator-crash:%s:%s' % (fmt, type(e).__name__))
        return 'crash', '%s: %s' % (type(e).__name__, str(e)[:150])
    return ('valid' if valid else 'invalid'), ' | '.join(map(str, report))[:300]


# ========================================================================= check
def check(case, acc, tmp):
    kind = case['kind']
    if kind == 'seed':
        return check_seed(case, acc, tmp)
    return check_mut(case, acc, tmp)


def check_seed(case, acc, tmp):
    """oracle clause (1) on one table, both formats, every accepted format_version spelling"""
    spec = case['spec']
    for fmt, variant, versions in (('json', '', [None, '1.0.0']), ('hdf5', '', [None, '2.1', '2.1.0']),
                                   ('json', 'direct', [None]), ('json', 'today', [None]),
                                   ('json', 'direct-today', [None]), ('json', 'write_biom_table', [None]),
                                   ('hdf5', 'plain', [None]), ('hdf5', 'today', [None]),
                                   ('hdf5', 'write_biom_table', [None])):
        try:
            art = seed_artefact(fmt, spec, tmp, acc, variant)
        except Exception as e:
            acc.count('skipped:seed-writer-raised:%s:%s' % (fmt, type(e).__name__))
            continue
        if fmt == 'json':
            path = os.path.join(tmp, 'v_%016x.biom' % h64(art))
            with open(path, 'w', encoding='utf-8') as fh:
                fh.write(art)
        else:
            path = art
        P.state(acc, 'seed', fmt, json.dumps(spec, sort_keys=True))
        seed_doc = None
        if fmt == 'json':
            try:
                seed_doc = json.loads(art)
            except ValueError as e:
                # C02's defect, but also a clause-1 failure: nothing can report this file valid
                acc.count('clause:seed-valid:json')
                acc.violation('seed-rejected:json:writer-output-is-not-json', 'to_json wrote text that '
                              'json.loads rejects (%s): %r' % (e, art[:200]), case)
                os.unlink(path)
                continue
        for ver in versions:
            acc.evals += 1
            acc.count('clause:seed-valid:' + fmt)
            if variant:
                acc.count('clause:seed-valid:%s:%s' % (fmt, variant))
            verdict, rep = validate(path, acc, fmt, ver)
            acc.outcomes.add(h64((fmt, verdict, rep)))
            how = fmt + (':' + variant if variant else '')
            if verdict == 'invalid':
                acc.violation('seed-rejected:%s' % how, 'library-written %s file reported invalid '
                              '(format_version=%r): %s' % (how, ver, rep), case)
            elif verdict == 'crash':
                acc.violation('seed-validator-crashed:%s' % how, 'validator raised on a library-written '
                              '%s file (format_version=%r): %s' % (how, ver, rep), case)
        if fmt == 'json':
            if verdict == 'valid' and not variant:
                clause3(acc, case, path, seed_doc, set(), [], 'seed')
            os.unlink(path)
        elif variant:
            os.unlink(path)
    acc.nontrivial.add(h64(json.dumps(spec, sort_keys=True)))


def culprits(classes, neutral_names):
    if classes:
        return sorted(classes)
    if neutral_names:
        return sorted(neutral_names)
    return ['seed']


def clause3(acc, case, path, doc, classes, neutral_names, what):
    """a JSON file with a numeric element type that was reported valid must load, and the
    loaded shape / ids / values must equal the independent decode"""
    from biom import load_table
    if not isinstance(doc, dict) or doc.get('matrix_element_type') not in ('int', 'float'):
        acc.count('clause3:skipped-non-numeric')
        return
    acc.evals += 1
    acc.count('clause:valid-implies-loadable')
    who = culprits(classes, neutral_names)
    try:
        oids, sids, shape, dense = json_decode(doc)
    except Exception as e:
        for c in who:
            acc.violation('valid-but-undecodable:json:%s' % c, '%s: reported valid, but the document '
                          'cannot be decoded by hand: %s: %s' % (what, type(e).__name__, e), case)
        return
    acc.trans += 1
    try:
        t = load_table(path)
    except (Exception, SystemExit) as e:
        for c in who:
            acc.violation('valid-but-unloadable:json:%s' % c, '%s: reported valid, but load_table raises '
                          '%s: %s' % (what, type(e).__name__, str(e)[:150]), case)
        return
    acc.count('clause3:loaded')
    g_o = [str(x) for x in t.ids('observation')]
    g_s = [str(x) for x in t.ids('sample')]
    diff = None
    if tuple(t.shape) != tuple(shape):
        diff = ('shape', 'loaded shape %r, declared %r' % (t.shape, shape))
    elif g_o != [str(x) for x in oids] or g_s != [str(x) for x in sids]:
        diff = ('ids', 'loaded ids %r / %r, document has %r / %r' % (g_o, g_s, oids, sids))
    else:
        got = t.matrix_data.toarray().tolist()
        if got != dense:
            diff = ('values', 'loaded matrix %r, document decodes to %r' % (got, dense))
    if diff:
        for c in who:
            acc.violation('loaded-differs:json:%s:%s' % (c, diff[0]), '%s: %s' % (what, diff[1]), case)


def check_mut(case, acc, tmp):
    fmt = case['fmt']
    ops, by = ops_of(fmt)
    spec = case['spec']
    seed = seed_artefact(fmt, spec, tmp, acc)
    if fmt == 'json':
        try:
            json.loads(seed)
        except ValueError:
            acc.count('skipped:json-seed-is-not-json(C02)')
            return
    first = by[case['first']]
    second = case.get('second')
    if second == '*':                      # every ordered pair that starts with `first`
        seconds = [o.name for o in ops]
    else:
        seconds = [second]
    base_case = {k: v for k, v in case.items() if k != 'second'}
    n = 0
    for sec in seconds:
        c = dict(base_case)
        c['second'] = sec
        seq = [first] + ([by[sec]] if sec else [])
        if fmt == 'json':
            one_json(c, acc, tmp, seed, seq)
        else:
            one_hdf5(c, acc, tmp, seed, seq)
        n += 1
    acc.traces += n - 1            # the pipeline adds one per case
    if second is None:
        # the verdict on a file does not depend on what was validated before it in the same process: after the
        # corrupted file the untouched library-written seed must still be reported valid
        if fmt == 'json':
            path = os.path.join(tmp, 'after_%016x.biom' % h64(seed))
            with open(path, 'w', encoding='utf-8') as fh:
                fh.write(seed)
        else:
            path = seed
        acc.evals += 1
        verdict, rep = validate(path, acc, fmt)
        if fmt == 'json':
            os.unlink(path)
        if verdict != 'valid':
            acc.violation('seed-rejected-after:%s:%s' % (fmt, first.cls), 'the library-written %s seed is reported %s '
                          'when it is validated after a file mutated by %s (report: %s)' % (fmt, verdict, first.name, rep),
                          dict(case))
        else:
            acc.count('clause:seed-valid-after-corrupt:' + fmt)


def judge(acc, case, fmt, seq, classes, verdict, rep, what):
    """oracle clause (2) + bookkeeping; returns neutral operator names"""
    single = len(seq) == 1
    op = seq[0]
    neutral = [o.name for o in seq if o.tag == 'N']
    if single:
        acc.count('single:%s:%s:%s' % (fmt, op.name, verdict))
        if op.tag == 'R' and op.cls not in classes:
            raise AssertionError('grammar self-check: operator %s did not produce its class %s (detected %r)'
                                 % (op.name, op.cls, sorted(classes)))
        if op.tag == 'N' and classes:
            raise AssertionError('grammar self-check: neutral operator %s produced corruption %r'
                                 % (op.name, sorted(classes)))
    else:
        acc.count('pair:%s:%s' % (fmt, 'corrupt' if classes else
                                  ('neutral' if len(neutral) == 2 else 'cancelled')))
    acc.evals += 1
    acc.outcomes.add(h64((fmt, verdict, rep)))
    if classes:
        acc.count('clause:corrupt-never-valid:' + fmt)
        acc.count('corrupt:%s:%s' % (fmt, verdict))
        if verdict == 'valid':
            for c in sorted(classes):
                acc.violation('accepted:%s:%s' % (fmt, c), '%s: the file carries %r and is reported '
                              'valid (report: %r)' % (what, sorted(classes), rep), case)
    else:
        acc.count('clean:%s:%s' % (fmt, verdict))
    return neutral


def one_json(case, acc, tmp, seed_text, seq):
    doc = json.loads(seed_text)
    for k, op in enumerate(seq):
        if op.fn(doc) is False:
            acc.count('inapplicable:json:%s' % ('single' if len(seq) == 1 else 'pair'))
            return
    acc.count('applied:json:' + seq[0].name)
    if len(seq) == 2:
        acc.count('applied-second:json:' + seq[1].name)
    text = json.dumps(doc)
    if text != json.dumps(json.loads(seed_text)):
        acc.nontrivial.add(h64(text))
    P.state(acc, 'json', text)
    path = os.path.join(tmp, 'm_%016x.biom' % h64(text))
    with open(path, 'w', encoding='utf-8') as fh:
        fh.write(text)
    try:
        classes = json_detect(json.loads(text))          # what the *file* says, after the round trip
        verdict, rep = validate(path, acc, 'json')
        what = ' + '.join(o.name for o in seq)
        neutral = judge(acc, case, 'json', seq, classes, verdict, rep, what)
        if verdict == 'valid':
            if not classes and not seed_loads(seed_text, tmp):
                neutral = []             # the unmutated seed is already unloadable: blame `seed`
            clause3(acc, case, path, json.loads(text), classes, neutral, what)
    finally:
        os.unlink(path)


def one_hdf5(case, acc, tmp, seed_path, seq):
    import h5py
    path = os.path.join(tmp, 'm_%d.h5' % os.getpid())
    shutil.copyfile(seed_path, path)
    try:
        with h5py.File(path, 'r+') as f:
            for op in seq:
                if op.fn(f) is False:
                    acc.count('inapplicable:hdf5:%s' % ('single' if len(seq) == 1 else 'pair'))
                    return
        acc.count('applied:hdf5:' + seq[0].name)
        if len(seq) == 2:
            acc.count('applied-second:hdf5:' + seq[1].name)
        names = tuple(o.name for o in seq)
        acc.nontrivial.add(h64(('hdf5', json.dumps(case['spec'], sort_keys=True), names)))
        P.state(acc, 'hdf5', json.dumps(case['spec'], sort_keys=True), names)
        classes = hdf5_detect(path)
        verdict, rep = validate(path, acc, 'hdf5')
        judge(acc, case, 'hdf5', seq, classes, verdict, rep, ' + '.join(names))
    finally:
        if os.path.exists(path):
            os.unlink(path)


# ========================================================================= cases / run
def cases(tier, seed):
    out = []
    for spec in validity_seeds(tier, seed):
        out.append({'kind': 'seed', 'spec': spec})
    js, hs = mutation_seeds(tier, seed)
    for spec in js + hs:
        out.append({'kind': 'seed', 'spec': spec})
    jops = [o.name for o in json_ops()]
    hops = [o.name for o in hdf5_ops()]
    # singles first (so that the recorded counterexample of a signature is a shortest one) ...
    for fmt, seeds, names in (('json', js, jops), ('hdf5', hs, hops)):
        for spec in seeds:
            for a in names:
                out.append({'kind': 'mut', 'fmt': fmt, 'spec': spec, 'first': a, 'second': None})
    # ... then every ordered pair ('*' = every second operator after this first one)
    for spec in js:
        for a in jops:
            out.append({'kind': 'mut', 'fmt': 'json', 'spec': spec, 'first': a, 'second': '*'})
    for k, spec in enumerate(hs):
        if tier == 'thorough' or k == 0:
            for a in hops:
                out.append({'kind': 'mut', 'fmt': 'hdf5', 'spec': spec, 'first': a, 'second': '*'})
    return out


def cli_statuses(run, tmp):
    """thorough tier: a handful of real `biom validate-table` processes; the exit status must
    agree with the in-process verdict"""
    import h5py
    acc = run.acc
    js, hs = mutation_seeds(run.tier, run.seed)
    files = []
    t = D.build(js[0])
    text = t.to_json(GEN, creation_date=DATE)
    p = os.path.join(tmp, 'cli_seed.json')
    open(p, 'w', encoding='utf-8').write(text)
    files.append(('json-seed', p))
    doc = json.loads(text)
    doc['shape'] = [doc['shape'][0] + 1, doc['shape'][1]]
    p = os.path.join(tmp, 'cli_shape.json')
    json.dump(doc, open(p, 'w'))
    files.append(('json-shape-rows+1', p))
    p = os.path.join(tmp, 'cli_seed.h5')
    with h5py.File(p, 'w') as f:
        D.build(hs[0]).to_hdf5(f, GEN, creation_date=DATE)
    files.append(('hdf5-seed', p))
    q = os.path.join(tmp, 'cli_noids.h5')
    shutil.copyfile(p, q)
    with h5py.File(q, 'r+') as f:
        del f.attrs['shape']
    files.append(('hdf5-delete-attr:shape', q))
    for name, path in files:
        verdict, rep = validate(path, acc, 'cli')
        r = subprocess.run([sys.executable, '-W', 'ignore', '-c',
                            'import sys; from biom.cli import cli; sys.argv = ["biom"] + sys.argv[1:]; cli()',
                            'validate-table', '-i', path], capture_output=True, text=True)
        acc.trans += 1
        acc.evals += 1
        acc.count('clause:cli-exit-status')
        ok = (r.returncode == 0) == (verdict == 'valid')
        if name.endswith('seed') and r.returncode != 0:
            acc.violation('seed-rejected:cli', '%s: `biom validate-table` exit status %d: %s'
                          % (name, r.returncode, (r.stdout + r.stderr)[-300:]), {'kind': 'cli', 'name': name})
        elif not ok:
            acc.violation('cli-exit-status-disagrees', '%s: in-process verdict %s, exit status %d'
                          % (name, verdict, r.returncode), {'kind': 'cli', 'name': name})


def run(run):
    import tempfile
    cs = cases(run.tier, run.seed)
    complete = guarded_run_cases(run, cs, check, nchunks=256)
    if run.tier == 'thorough':
        tmp = tempfile.mkdtemp(prefix='verif-c15-cli-')
        try:
            cli_statuses(run, tmp)
        finally:
            shutil.rmtree(tmp, ignore_errors=True)
    cnt = run.acc.counters
    jo, ho = json_ops(), hdf5_ops()
    js, hs = mutation_seeds(run.tier, run.seed)
    need = ['clause:seed-valid:json', 'clause:seed-valid:hdf5', 'clause:seed-valid-after-corrupt:json',
            'clause:seed-valid-after-corrupt:hdf5', 'clause:corrupt-never-valid:json',
            'clause:corrupt-never-valid:hdf5', 'clause:valid-implies-loadable', 'clause3:loaded',
            'pair:json:corrupt', 'pair:hdf5:corrupt', 'pair:json:cancelled', 'pair:hdf5:cancelled']
    need += ['clause:seed-valid:json:' + v for v in ('direct', 'today', 'direct-today', 'write_biom_table')]
    need += ['clause:seed-valid:hdf5:' + v for v in ('plain', 'today', 'write_biom_table')]
    need += ['applied:json:' + o.name for o in jo] + ['applied:hdf5:' + o.name for o in ho]
    need += ['applied-second:json:' + o.name for o in jo] + ['applied-second:hdf5:' + o.name for o in ho]
    if run.tier == 'thorough':
        need.append('clause:cli-exit-status')
    vacuity(run, need if complete else [])

    def table(fmt, ops):
        out = {}
        for o in ops:
            out[o.name] = {'class': o.cls, 'tag': 'must-reject' if o.tag == 'R' else 'neutral',
                           'singles': {v: cnt.get('single:%s:%s:%s' % (fmt, o.name, v), 0)
                                       for v in ('valid', 'invalid', 'crash')}}
        return out
    run.extra['operators'] = {'json': table('json', jo), 'hdf5': table('hdf5', ho)}
    run.extra['validator_crashes'] = {k: v for k, v in cnt.items() if k.startswith('validator-crash:')}
    run.extra['bound'] = {
        'json_mutation_seeds': len(js), 'hdf5_mutation_seeds': len(hs),
        'json_operators': len(jo), 'hdf5_operators': len(ho),
        'json': 'all singles and all ordered pairs on every JSON seed',
        'hdf5': ('all singles on every HDF5 seed; all ordered pairs on %s'
                 % ('every HDF5 seed' if run.tier == 'thorough' else 'HDF5 seed 0 only')),
        'validity_only_seeds': len(validity_seeds(run.tier, run.seed)),
        'validity_family': 'all masks of the tier shapes + id style x metadata kind, each as JSON '
                           '(format_version None, 1.0.0) and HDF5 (None, 2.1, 2.1.0); every vocabulary type',
        'subprocess_cli_runs': 4 if run.tier == 'thorough' else 0,
        'simultaneous_corruptions': 2,
    }
    run.assumptions += ['stdlib json and raw h5py are the independent decoders / detectors',
                        'a validator crash (exception or sys.exit) counts as "not reported valid"; crash '
                        'classes are tallied in coverage.validator_crashes',
                        'nothing is demanded of neutral mutations and of pairs whose second mutation '
                        'undoes the first (no corruption class detectable in the artefact)']


def replay(case):
    return P.replay_case(check, case)
