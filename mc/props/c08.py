"""C08 – filtering keeps exactly the selected IDs, intact and in order.

Part 1 (E2): every matrix over {0,1,2} (and over {0,1,-1} for the remove_empty / value
predicates) of the tier's shapes x layout prefix x every subset of each axis x invert x
inplace x id-collection form / monitored predicate; remove_empty, head(n, m) for all n, m,
requests naming an unknown id.
Part 2 (E1): the same filter operations judged against the model after every operation
history of bounded depth over the whole alphabet.
"""
import itertools

import numpy as np

from .. import explorer as E
from .. import observe as O
from .. import ops as OPS
from .. import pipeline as P
from ..compare import diff
from ..core import h64, vacuity
from ..model import M

LEVEL = 'model_checking'
RULE = ('part 1: every matrix over a 3-value alphabet of every shape of the tier x 4 layout prefixes x '
        'every subset of each axis x invert x {list, reversed list, set, tuple, ndarray, id predicate} '
        '(x inplace for list and predicate), value/metadata predicates, remove_empty, head(n,m) for all '
        'n,m, unknown ids; non-trivial = matrix with a non-zero cell, distinct by (matrix, layout). '
        'part 2: BFS over histories, filter/remove_empty/head judged against the dense model in '
        'every reached state')

OID = ['o10', 'o9', 'o2']
SID = ['s2', 's1', 's3']
LAYOUTS = ['csr', 'csc', 'unsorted', 'filtered']
FILTER_OPS = ('filter_first', 'filter_last', 'filter_pred', 'filter_md', 'filter_none', 'filter_all',
              'remove_empty', 'head')


def make(case):
    from biom import Table
    N, Mm = case['shape']
    D = np.array(case['vals'], float).reshape(N, Mm)
    oids, sids = OID[:N], SID[:Mm]
    omd = [{'k': str(i % 2)} for i in range(N)]
    smd = [{'g': 'uv'[j % 2]} for j in range(Mm)]
    lay = case['layout']
    if lay in ('csr', 'csc'):
        t = Table(D, oids, sids, [dict(x) for x in omd], [dict(x) for x in smd], type='OTU table')
        if lay == 'csc':
            t.data(sids[0], 'sample')
    elif lay == 'unsorted':
        t = Table(D[:, ::-1], oids, sids[::-1], [dict(x) for x in omd],
                  [dict(x) for x in smd[::-1]], type='OTU table')
        t = t.sort_order(sids, axis='sample')
        t.type = 'OTU table'
    else:
        D2 = np.zeros((N + 1, Mm + 1))
        D2[1:, 1:] = D
        D2[0, :] = 3
        D2[:, 0] = 4
        t = Table(D2, ['xo'] + oids, ['xs'] + sids, [{'k': 'x'}] + [dict(x) for x in omd],
                  [{'g': 'x'}] + [dict(x) for x in smd], type='OTU table')
        t.filter(['xo'], axis='observation', invert=True)
        t.filter(['xs'], axis='sample', invert=True)
    return t, M(oids, sids, D.tolist(), omd, smd, 'OTU table')


def subsets(ids):
    for r in range(len(ids) + 1):
        for c in itertools.combinations(ids, r):
            yield list(c)


def cases(tier, seed):
    shapes = [(1, 1), (1, 2), (2, 1), (2, 2), (2, 3), (3, 2)]
    if tier == 'thorough':
        shapes += [(1, 3), (3, 1), (3, 3)]
    out = []
    for sh in shapes:
        n = sh[0] * sh[1]
        # quick tier: the six-cell shapes (729 matrices each) on the two layouts that differ most; every
        # layout for the smaller shapes.  thorough: every layout for every shape.
        lays = LAYOUTS if (tier == 'thorough' or n <= 4) else ['csr', 'unsorted']
        for vals in itertools.product((0, 1, 2), repeat=n):
            for lay in lays:
                out.append({'shape': list(sh), 'vals': list(vals), 'layout': lay, 'alpha': '012'})
    neg_shapes = [(1, 2), (2, 1), (2, 2), (2, 3), (3, 2)]
    for sh in neg_shapes:
        n = sh[0] * sh[1]
        for vals in itertools.product((0, 1, -1), repeat=n):
            if -1 not in vals:
                continue
            for lay in ('csr', 'unsorted'):
                out.append({'shape': list(sh), 'vals': list(vals), 'layout': lay, 'alpha': '01-1'})
    return out


def _forms(S, ids):
    inorder = [i for i in ids if i in S]
    yield 'list', inorder
    yield 'list_rev', inorder[::-1]
    yield 'set', set(S)
    yield 'tuple', tuple(inorder)
    yield 'ndarray', (np.array(inorder) if inorder else np.array([], dtype='U1'))


def check(case, acc, tmp):
    t0, m0 = make(case)
    neg = case['alpha'] != '012'
    if any(case['vals']):
        acc.nontrivial.add(h64((tuple(case['shape']), tuple(case['vals']), case['layout'])))
    acc.count('layout:' + O.layout_class(t0))
    P.state(acc, 'src', O.concrete_key(t0))

    def bad(sig, detail, **kw):
        c = dict(case)
        c.update(kw)
        acc.violation(sig, detail, c)

    def judge(r, exp, what, **kw):
        acc.evals += 1
        d = diff(r, exp)
        if d is not None:
            bad('filter-result:' + what.split(':')[0], '%s: %s' % (what, d), **kw)
            return False
        for ax, ids in (('observation', exp.o), ('sample', exp.c)):
            for k, i in enumerate(ids):
                if r.index(i, ax) != k:
                    bad('filter-index:' + what.split(':')[0], '%s: index(%r)=%r' % (what, i, r.index(i, ax)), **kw)
                    return False
        acc.outcomes.add(O.content_key(r))
        return True

    for ax in ('observation', 'sample'):
        ids = m0.ids(ax)
        md = m0.md(ax)
        if not neg:
            for S in subsets(ids):
                for inv in (False, True):
                    exp = m0.filter_ids(ax, S, inv)
                    kw = dict(axis=ax, subset=S, invert=inv)
                    for form, coll in _forms(S, ids):
                        for inpl in ((False, True) if form == 'list' else (False,)):
                            t, _ = make(case)
                            acc.trans += 1
                            try:
                                r = t.filter(coll, axis=ax, invert=inv, inplace=inpl)
                            except Exception as e:
                                bad('filter-raised:' + form, 'filter(%s form) raised %s: %s'
                                    % (form, type(e).__name__, e), form=form, inplace=inpl, **kw)
                                continue
                            acc.count('form:' + form)
                            judge(r, exp, '%s:inplace=%s' % (form, inpl), form=form, inplace=inpl, **kw)
                    # monitored id predicate
                    for inpl in (False, True):
                        t, _ = make(case)
                        seen = []

                        def pred(v, i, mdd, S=S, seen=seen):
                            seen.append((str(i), tuple(float(x) for x in v),
                                         None if mdd is None else dict(mdd)))
                            return i in S
                        acc.trans += 1
                        try:
                            r = t.filter(pred, axis=ax, invert=inv, inplace=inpl)
                        except Exception as e:
                            bad('filter-raised:predicate', 'predicate filter raised %s: %s'
                                % (type(e).__name__, e), form='pred_id', inplace=inpl, **kw)
                            continue
                        acc.count('form:pred_id')
                        expcalls = [(ids[k], tuple(float(x) for x in m0.vec(ax, k)), dict(md[k]))
                                    for k in range(len(ids))]
                        acc.evals += 1
                        if seen != expcalls:
                            what = 'count' if len(seen) != len(expcalls) else \
                                ('order' if [s[0] for s in seen] != [e[0] for e in expcalls] else
                                 ('vector' if [s[1] for s in seen] != [e[1] for e in expcalls] else 'metadata'))
                            bad('predicate-args:' + what, 'predicate received %r, the table holds %r'
                                % (seen, expcalls), form='pred_id', inplace=inpl, **kw)
                        else:
                            acc.count('clause:predicate-args')
                        judge(r, exp, 'pred_id:inplace=%s' % inpl, form='pred_id', inplace=inpl, **kw)
        # value / metadata predicates, and their equivalence with the id list they accept
        preds = [('sum>1', lambda v, i, mdd: v.sum() > 1, lambda vec, i, mdd: sum(vec) > 1),
                 ('any', lambda v, i, mdd: bool((v != 0).any()), lambda vec, i, mdd: any(x != 0 for x in vec)),
                 ('md', lambda v, i, mdd: mdd is not None and (mdd.get('k') == '0' or mdd.get('g') == 'u'),
                  lambda vec, i, mdd: mdd.get('k') == '0' or mdd.get('g') == 'u')]
        for name, f, mf in preds:
            acc_ids = [ids[k] for k in range(len(ids)) if mf(m0.vec(ax, k), ids[k], md[k])]
            for inv in (False, True):
                exp = m0.filter_ids(ax, acc_ids, inv)
                kw = dict(axis=ax, pred=name, invert=inv)
                t, _ = make(case)
                acc.trans += 2
                try:
                    r1 = t.filter(f, axis=ax, invert=inv, inplace=False)
                    r2 = t.filter(acc_ids, axis=ax, invert=inv, inplace=False)
                except Exception as e:
                    bad('filter-raised:predicate', 'value predicate %s raised %s: %s'
                        % (name, type(e).__name__, e), **kw)
                    continue
                judge(r1, exp, 'pred_value:' + name, **kw)
                acc.evals += 1
                if O.content(r1) != O.content(r2):
                    bad('predicate-vs-idlist', 'predicate %s and the list of ids it accepts give different tables'
                        % name, **kw)
                else:
                    acc.count('clause:predicate-vs-idlist')
        # unknown id
        longest = max(ids, key=len)
        for form, coll in (('list', [ids[0], 'nope']), ('set', {'nope'}),
                           # unknown ids that merely extend a stored id of maximal width
                           ('list_ext', [longest + 'x']), ('tuple_ext', (ids[-1], longest + '2')),
                           ('ndarray_ext', np.array([longest + ' ']))):
            for inpl in (False, True):
                t, _ = make(case)
                before = O.content(t)
                acc.trans += 1
                acc.evals += 1
                try:
                    t.filter(coll, axis=ax, inplace=inpl)
                    bad('unknown-id:accepted', 'filter(%r) naming an unknown id did not raise' % (coll,),
                        axis=ax, form=form, inplace=inpl)
                except Exception:
                    acc.count('clause:unknown-id')
                if O.content(t) != before:
                    bad('unknown-id:table-changed', 'table changed by a refused filter(%r)' % (coll,),
                        axis=ax, form=form, inplace=inpl)
    # remove_empty
    for ax in ('observation', 'sample', 'whole'):
        exp = m0.remove_empty(ax)
        for inpl in (False, True):
            t, _ = make(case)
            acc.trans += 1
            try:
                r = t.remove_empty(ax, inplace=inpl)
            except Exception as e:
                bad('remove_empty-raised', 'remove_empty(%s) raised %s: %s' % (ax, type(e).__name__, e),
                    axis=ax, inplace=inpl)
                continue
            acc.evals += 1
            d = diff(r, exp)
            if d is not None:
                bad('remove_empty-result' + (':negative-values' if neg else ''),
                    'remove_empty(%s, inplace=%s): %s' % (ax, inpl, d), axis=ax, inplace=inpl)
            else:
                acc.count('clause:remove_empty')
    # head
    if not neg:
        N, Mm = case['shape']
        for n in range(1, N + 2):
            for mm in range(1, Mm + 2):
                t, _ = make(case)
                acc.trans += 1
                try:
                    r = t.head(n, mm)
                except Exception as e:
                    bad('head-raised', 'head(%d,%d) raised %s: %s' % (n, mm, type(e).__name__, e), n=n, m=mm)
                    continue
                acc.evals += 1
                d = diff(r, m0.head(n, mm))
                if d is not None:
                    bad('head-result', 'head(%d,%d): %s' % (n, mm, d), n=n, m=mm)
                else:
                    acc.count('clause:head')


# ----------------------------------------------------------------------------- part 2
def spec(depth):
    allops = OPS.all_ops()
    last = [o for o in allops if o[0] in FILTER_OPS]
    return E.Spec(OPS.start_tables(), allops, depth, check_ops=FILTER_OPS, last_level_ops=last,
                  label='histories-d%d' % depth)


def run(run):
    cs = cases(run.tier, run.seed)
    P.run_cases(run, cs, check, nchunks=256)
    depth = 2 if run.quick else 3
    info = E.explore(run, spec(depth))
    run.extra['bound'] = {'part1_cases': len(cs), 'layouts': LAYOUTS,
                          'shapes': sorted({tuple(c['shape']) for c in cs}),
                          'part2_depth': info['depth_completed']}
    vacuity(run, ['clause:predicate-args', 'clause:predicate-vs-idlist', 'clause:unknown-id',
                  'clause:remove_empty', 'clause:head', 'form:list', 'form:list_rev', 'form:set',
                  'form:tuple', 'form:ndarray', 'form:pred_id'] + ['op:' + o for o in FILTER_OPS])
    run.assumptions.append('predicates are plain functions (the library refuses partials/callable objects); '
                           'generators are outside the quantifier')


def replay(case):
    if 'history' in case:
        return E.replay_history(spec(len(case['history'])), case)
    base = {k: case[k] for k in ('shape', 'vals', 'layout', 'alpha')}
    return P.replay_case(check, base)
