"""C12 – subsampling draws exactly n counts per vector, never inventing any.

Engine E3 – the environment is the random generator.  `Table.subsample` obtains it from
numpy.random.default_rng(seed) and the compiled kernels call choice / multinomial / shuffle
on it; the harness replaces it by a scripted object and enumerates EVERY answer it could
give: every n-subset of range(total) per vector (without replacement), every composition
of n over the non-zero entries (with replacement), every permutation of the ids (by id).
Each execution is judged against the exact combinatorial meaning of that answer, and the
arguments handed to the generator are checked.  A second part runs the real generator on
the same tables for a range of seeds (reproducibility + the invariants).
"""
import itertools
from unittest import mock

import numpy as np

from .. import observe as O
from .. import pipeline as P
from ..core import h64, vacuity

LEVEL = 'model_checking'
RULE = ('every non-negative integer count table of the tier\'s shapes/entry ranges x layout x axis x n x EVERY '
        'generator answer (product over vectors of all n-subsets of unit indices / all compositions of n / '
        'all id permutations); plus real-generator seeds 0..3 (quick) / 0..15 (thorough) on the same '
        'tables; non-trivial = at least one vector is actually subsampled (total >= n), distinct by '
        '(table, layout, axis, n, mode)')


class ScriptRNG:
    """duck-typed stand-in for numpy.random.Generator, answers from a script"""

    def __init__(self, answers):
        self.answers = list(answers)
        self.calls = []

    def choice(self, a, size=None, replace=True, p=None, axis=0, shuffle=True):
        self.calls.append(('choice', int(a), int(size), bool(replace), bool(shuffle)))
        return np.array(self.answers.pop(0), dtype=np.int64)

    def multinomial(self, n, pvals, size=None):
        self.calls.append(('multinomial', int(n), [float(x) for x in pvals]))
        return np.array(self.answers.pop(0), dtype=np.int64)

    def shuffle(self, x, axis=0):
        self.calls.append(('shuffle', [str(i) for i in x]))
        perm = self.answers.pop(0)
        x[:] = x[list(perm)]


def compositions(n, k):
    if k == 0:
        if n == 0:
            yield ()
        return
    if k == 1:
        yield (n,)
        return
    for i in range(n + 1):
        for r in compositions(n - i, k - 1):
            yield (i,) + r


def make(case):
    from biom import Table
    N, Mm = case['shape']
    D = np.array(case['vals'], float).reshape(N, Mm)
    o = ['o%d' % i for i in range(N)]
    s = ['s%d' % j for j in range(Mm)]
    omd = [{'k': 'a%d' % i} for i in range(N)]
    smd = [{'g': 'b%d' % j} for j in range(Mm)]
    t = Table(D.copy(), o, s, omd, smd, type='OTU table')
    lay = case['layout']
    if lay == 'csc':
        t.data(s[0], 'sample')
    elif lay == 'unsorted':
        t = t.sort_order(s[::-1], axis='sample').sort_order(s, axis='sample')
        t = t.sort_order(o[::-1], axis='observation').sort_order(o, axis='observation')
        t.type = 'OTU table'
    return t, D, o, s


def table_specs(tier):
    specs = []
    for vals in itertools.product(range(0, 4), repeat=4):
        specs.append(((2, 2), vals, (1, 2, 3, 4)))
    for sh in ((1, 3), (3, 1)):
        for vals in itertools.product(range(0, 3), repeat=3):
            specs.append((sh, vals, (1, 2, 3)))
    hi = 2 if tier == 'quick' else 3
    for sh in ((2, 3), (3, 2)):
        for vals in itertools.product(range(0, hi), repeat=6):
            specs.append((sh, vals, (1, 2) if tier == 'quick' else (1, 2, 3)))
    if tier == 'thorough':
        # larger counts; the number of generator answers is the product over the vectors of C(total, n), so the
        # totals stay <= 8 (C(8,4)^2 = 4900 answers per call)
        for vals in itertools.product((0, 1, 4), repeat=4):
            specs.append(((2, 2), vals, (1, 4, 5)))
    return specs


def cases(tier, seed):
    out = []
    lays = ('csr', 'csc', 'unsorted')
    for sh, vals, ns in table_specs(tier):
        for li, lay in enumerate(lays):
            if sh in ((2, 3), (3, 2)) and lay != lays[(sum(vals) + seed) % 3] and tier == 'quick':
                continue        # quick: one layout per 2x3/3x2 table (rotating with the seed), all three otherwise
            out.append({'shape': list(sh), 'vals': list(vals), 'layout': lay, 'ns': list(ns)})
    return out


def expected_table(D, o, s, axis, newvecs, keep):
    """dense expectation: newvecs[v] replaces vector v (axis order) for v in keep; then other-axis empties drop"""
    N, Mm = D.shape
    if axis == 'sample':
        E = np.zeros((N, len(keep)))
        for c, v in enumerate(keep):
            E[:, c] = newvecs[v]
        es = [s[v] for v in keep]
        rows = [i for i in range(N) if E[i, :].sum() > 0] if keep else []
        return E[rows, :], [o[i] for i in rows], es
    E = np.zeros((len(keep), Mm))
    for r, v in enumerate(keep):
        E[r, :] = newvecs[v]
    eo = [o[v] for v in keep]
    cols = [j for j in range(Mm) if E[:, j].sum() > 0] if keep else []
    return E[:, cols], eo, [s[j] for j in cols]


def result_matches(R, E, eo, es):
    ro, rs = list(O.ids(R, 'observation')), list(O.ids(R, 'sample'))
    if ro != eo or rs != es:
        return 'ids %r / %r, expected %r / %r' % (ro, rs, eo, es)
    if E.size and not np.array_equal(np.asarray(R.matrix_data.toarray()), E):
        return 'matrix %r, expected %r' % (R.matrix_data.toarray().tolist(), E.tolist())
    return None


def check(case, acc, tmp):
    t0, D, o, s = make(case)
    P.state(acc, 'src', O.concrete_key(t0))
    src_content = O.content(t0)
    for axis in ('sample', 'observation'):
        vecs = [D[:, j] for j in range(D.shape[1])] if axis == 'sample' else [D[i, :] for i in range(D.shape[0])]
        ax_ids = s if axis == 'sample' else o
        for n in case['ns']:
            if case.get('only') and (case['only'][0], case['only'][1]) != (axis, n):
                continue
            # ---------------------------------------------------------- without replacement
            per = []
            for v in vecs:
                tot = int(v.sum())
                per.append([None] if tot < n or tot == 0 else list(itertools.combinations(range(tot), n)))
            n_answers = 1
            for p in per:
                n_answers *= len(p)
            if any(p != [None] for p in per):
                acc.nontrivial.add(h64((tuple(case['shape']), tuple(case['vals']), case['layout'], axis, n, 'wo')))
            for ans in itertools.product(*per):
                t, _, _, _ = make(case)
                script = [list(a) for a in ans if a is not None]
                rng = ScriptRNG(script)
                acc.trans += 1
                acc.evals += 1
                c = dict(case, only=[axis, n, 'without', [None if a is None else list(a) for a in ans]])
                try:
                    with mock.patch('numpy.random.default_rng', lambda seed=None: rng):
                        R = t.subsample(n, axis=axis)
                except Exception as e:
                    acc.violation('without-replacement:raised:' + type(e).__name__, 'subsample(%d,%s) raised %s: %s'
                                  % (n, axis, type(e).__name__, e), c)
                    continue
                newvecs, keep = {}, []
                for vi, (v, a) in enumerate(zip(vecs, ans)):
                    if a is None:
                        continue
                    keep.append(vi)
                    units = []
                    for pos, x in enumerate(v):
                        units += [pos] * int(x)
                    nv = np.zeros(len(v))
                    for u in a:
                        nv[units[u]] += 1
                    newvecs[vi] = nv
                E, eo, es = expected_table(D, o, s, axis, newvecs, keep)
                d = result_matches(R, E, eo, es)
                if d is not None:
                    # classify: wrong axis, wrong retention, or wrong counts
                    rsum = R.sum(axis) if R.shape[0] and R.shape[1] else np.array([])
                    if len(rsum) and not np.all(rsum == n):
                        sig = 'without-replacement:vector-sum'
                    elif list(O.ids(R, axis)) != [ax_ids[v] for v in keep]:
                        sig = 'without-replacement:retained-vectors'
                    else:
                        sig = 'without-replacement:unit-mapping'
                    acc.violation(sig, 'subsample(%d, axis=%s), answer %r: %s' % (n, axis, ans, d), c)
                    continue
                exp_calls = [('choice', int(v.sum()), n, False, False) for v, a in zip(vecs, ans) if a is not None]
                if rng.calls != exp_calls or rng.answers:
                    acc.violation('without-replacement:generator-arguments', 'generator calls %r, expected %r'
                                  % (rng.calls, exp_calls), c)
                    continue
                if O.content(t) != src_content:
                    acc.violation('input-modified', 'subsample modified its input table', c)
                acc.count('clause:without-replacement')
                acc.outcomes.add(O.content_key(R))
                P.state(acc, 'wo', O.content_key(R))
            # ---------------------------------------------------------- with replacement
            per = []
            for v in vecs:
                k = int((v != 0).sum())
                per.append([None] if k == 0 else list(compositions(n, k)))
            if n <= 3:
                for ans in itertools.product(*per):
                    t, _, _, _ = make(case)
                    rng = ScriptRNG([list(a) for a in ans if a is not None])
                    acc.trans += 1
                    acc.evals += 1
                    c = dict(case, only=[axis, n, 'with', [None if a is None else list(a) for a in ans]])
                    try:
                        with mock.patch('numpy.random.default_rng', lambda seed=None: rng):
                            R = t.subsample(n, axis=axis, with_replacement=True)
                    except Exception as e:
                        acc.violation('with-replacement:raised:' + type(e).__name__, 'subsample(%d,%s,with_replacement) '
                                      'raised %s: %s' % (n, axis, type(e).__name__, e), c)
                        continue
                    newvecs, keep = {}, []
                    for vi, (v, a) in enumerate(zip(vecs, ans)):
                        if a is None:
                            continue
                        keep.append(vi)
                        nv = np.zeros(len(v))
                        nzpos = [p for p, x in enumerate(v) if x != 0]
                        for p, cnt in zip(nzpos, a):
                            nv[p] = cnt
                        newvecs[vi] = nv
                    E, eo, es = expected_table(D, o, s, axis, newvecs, keep)
                    d = result_matches(R, E, eo, es)
                    if d is not None:
                        acc.violation('with-replacement:result', 'subsample(%d, axis=%s, with_replacement), answer %r: %s'
                                      % (n, axis, ans, d), c)
                        continue
                    okargs = len(rng.calls) == len(keep)
                    for call, vi in zip(rng.calls, keep):
                        v = vecs[vi]
                        pv = [x / v.sum() for x in v if x != 0]
                        if call[0] != 'multinomial' or call[1] != n or not np.allclose(call[2], pv, rtol=1e-12, atol=0):
                            okargs = False
                    if not okargs or rng.answers:
                        acc.violation('with-replacement:generator-arguments', 'generator calls %r' % (rng.calls,), c)
                        continue
                    acc.count('clause:with-replacement')
                    P.state(acc, 'w', O.content_key(R))
            # ---------------------------------------------------------- by id
            nid = len(ax_ids)
            for perm in itertools.permutations(range(nid)):
                t, _, _, _ = make(case)
                rng = ScriptRNG([list(perm)])
                acc.trans += 1
                acc.evals += 1
                c = dict(case, only=[axis, n, 'by_id', list(perm)])
                try:
                    with mock.patch('numpy.random.default_rng', lambda seed=None: rng):
                        R = t.subsample(n, axis=axis, by_id=True)
                except Exception as e:
                    acc.violation('by-id:raised:' + type(e).__name__, 'subsample(%d,%s,by_id) raised %s: %s'
                                  % (n, axis, type(e).__name__, e), c)
                    continue
                chosen = sorted(perm[:n])
                newvecs = {v: vecs[v] for v in chosen}
                E, eo, es = expected_table(D, o, s, axis, newvecs, chosen)
                d = result_matches(R, E, eo, es)
                if d is not None:
                    acc.violation('by-id:result', 'subsample(%d, axis=%s, by_id), shuffle answer %r: %s'
                                  % (n, axis, perm, d), c)
                    continue
                if rng.calls != [('shuffle', list(ax_ids))]:
                    acc.violation('by-id:generator-arguments', 'generator calls %r, expected one shuffle of %r'
                                  % (rng.calls, ax_ids), c)
                    continue
                if len(O.ids(R, axis)) != min(n, nid) and E.size:
                    acc.violation('by-id:count', 'kept %d ids, expected min(n,N)=%d' % (len(O.ids(R, axis)), min(n, nid)), c)
                acc.count('clause:by-id')
                P.state(acc, 'id', O.content_key(R))
    # -------------------------------------------------------------- the generator entry point
    if not case.get('only'):
        from biom.util import generate_subsamples
        for axis in ('sample', 'observation'):
            vecs = [D[:, j] for j in range(D.shape[1])] if axis == 'sample' else [D[i, :] for i in range(D.shape[0])]
            ax_ids = s if axis == 'sample' else o
            for n in case['ns'][:2]:
                for by_id in (False, True):
                    t, _, _, _ = make(case)
                    acc.trans += 2
                    acc.evals += 1
                    c = dict(case, generator=[axis, n, by_id])
                    try:
                        gen = generate_subsamples(t, n, axis=axis, by_id=by_id)
                        R1 = next(gen)
                        R2 = next(gen)
                    except Exception as e:
                        acc.violation('generate_subsamples:raised:' + type(e).__name__,
                                      'generate_subsamples raised %s: %s' % (type(e).__name__, e), c)
                        continue
                    if O.content(t) != src_content:
                        acc.violation('input-modified:generate_subsamples', 'generate_subsamples modified the table '
                                      'it draws from', c)
                        continue
                    okk = True
                    for R in (R1, R2):
                        rid = list(O.ids(R, axis))
                        if by_id:
                            okk = okk and len(rid) <= min(n, len(ax_ids)) and all(i in ax_ids for i in rid)
                        else:
                            want = [ax_ids[k] for k, v in enumerate(vecs) if v.sum() >= n]
                            A = np.asarray(R.matrix_data.toarray())
                            okk = okk and (rid == want or (not A.size and not want))
                            if A.size:
                                okk = okk and bool(np.all(A.sum(axis=0 if axis == 'sample' else 1) == n))
                    if not okk:
                        acc.violation('generate_subsamples:result', 'generate_subsamples(%d, %s, by_id=%s) yields a '
                                      'table that is not a subsample of its input' % (n, axis, by_id), c)
                    else:
                        acc.count('clause:generate_subsamples')
    # -------------------------------------------------------------- real generator
    if case.get('only'):
        return
    nseeds = case.get('nseeds', 8)
    for axis in ('sample', 'observation'):
        vecs = [D[:, j] for j in range(D.shape[1])] if axis == 'sample' else [D[i, :] for i in range(D.shape[0])]
        ax_ids = s if axis == 'sample' else o
        for n in case['ns'][:2]:
            for wr in (False, True):
                for seed in range(nseeds):
                    t, _, _, _ = make(case)
                    acc.trans += 2
                    acc.evals += 1
                    c = dict(case, real=[axis, n, wr, seed])
                    try:
                        R1 = t.subsample(n, axis=axis, with_replacement=wr, seed=seed)
                        R2 = t.subsample(n, axis=axis, with_replacement=wr, seed=seed)
                    except Exception as e:
                        acc.violation('real-generator:raised:' + type(e).__name__, 'subsample raised %s: %s'
                                      % (type(e).__name__, e), c)
                        continue
                    if O.content(R1) != O.content(R2):
                        acc.violation('real-generator:not-reproducible', 'same seed, different results', c)
                        continue
                    # the seed in the other forms numpy's generator accepts: a numpy integer (the same stream as
                    # the Python integer), a sequence of integers (twice the same result)
                    try:
                        R3 = t.subsample(n, axis=axis, with_replacement=wr, seed=np.int64(seed))
                        R4 = t.subsample(n, axis=axis, with_replacement=wr, seed=[seed, 7, 11])
                        R5 = t.subsample(n, axis=axis, with_replacement=wr, seed=[seed, 7, 11])
                        R6 = t.subsample(min(n, 2), axis=axis, by_id=True, seed=np.int64(seed))
                        R7 = t.subsample(min(n, 2), axis=axis, by_id=True, seed=seed)
                    except Exception as e:
                        acc.violation('real-generator:seed-form-raised:' + type(e).__name__, 'subsample with a numpy '
                                      'integer / sequence seed raised %s: %s' % (type(e).__name__, e), c)
                        continue
                    if O.content(R3) != O.content(R1) or O.content(R4) != O.content(R5) or O.content(R6) != O.content(R7):
                        acc.violation('real-generator:not-reproducible:seed-form', 'seed %d given as numpy.int64 / as a '
                                      'sequence does not reproduce: int64 == int: %r, sequence twice: %r, by_id int64 == '
                                      'int: %r' % (seed, O.content(R3) == O.content(R1), O.content(R4) == O.content(R5),
                                                   O.content(R6) == O.content(R7)), c)
                        continue
                    if O.content(t) != src_content:
                        acc.violation('input-modified', 'subsample modified its input table', c)
                    A = np.asarray(R1.matrix_data.toarray())
                    rid = list(O.ids(R1, axis))
                    want = [ax_ids[k] for k, v in enumerate(vecs) if (v.sum() >= n if not wr else v.sum() > 0)]
                    oth_ids = o if axis == 'sample' else s
                    ok = rid == want or (not A.size and not want)
                    if ok and A.size:
                        sums = A.sum(axis=0 if axis == 'sample' else 1)
                        ok = bool(np.all(sums == n)) and bool(np.all(A == np.floor(A))) and bool(np.all(A >= 0))
                        ro = list(O.ids(R1, 'observation' if axis == 'sample' else 'sample'))
                        for a_i, vid in enumerate(rid):
                            for b_i, oid in enumerate(ro):
                                orig = D[o.index(oid), s.index(vid)] if axis == 'sample' else D[o.index(vid), s.index(oid)]
                                got = A[b_i, a_i] if axis == 'sample' else A[a_i, b_i]
                                if (not wr and got > orig) or (wr and orig == 0 and got != 0):
                                    ok = False
                        other_sums = A.sum(axis=1 if axis == 'sample' else 0)
                        if np.any(other_sums == 0):
                            ok = False
                    if not ok:
                        acc.violation('real-generator:invariants' + (':with-replacement' if wr else ''),
                                      'subsample(%d, %s, wr=%s, seed=%d) -> ids %r matrix %r from %r'
                                      % (n, axis, wr, seed, rid, A.tolist(), D.tolist()), c)
                    else:
                        acc.count('clause:real-generator')


def run(run):
    cs = cases(run.tier, run.seed)
    for c in cs:
        c['nseeds'] = 4 if run.quick else 16
    # deterministic interleaving: the expensive tables (many unit counts) are spread over all chunks
    cs = [x for k in range(512) for x in cs[k::512]]
    P.run_cases(run, cs, check, nchunks=512)
    run.extra['bound'] = {'tables': len(table_specs(run.tier)), 'cases': len(cs),
                          'entry_ranges': '2x2: 0..3, n 1..4; 1x3/3x1: 0..2, n 1..3; 2x3/3x2: 0..%d' % (1 if run.quick else 2),
                          'real_generator_seeds': 4 if run.quick else 16}
    vacuity(run, ['clause:without-replacement', 'clause:with-replacement', 'clause:by-id', 'clause:real-generator',
                  'clause:generate_subsamples'])
    run.assumptions += ['numpy.random.Generator.choice(replace=False) / multinomial / shuffle are uniform as documented '
                        '(trusted): with the exact per-answer mapping and the checked generator arguments this is the '
                        '"each unit / id equally likely" clause, decided exactly rather than statistically',
                        'the generator is reached through numpy.random.default_rng (patched harness-side)']


def replay(case):
    base = {k: case[k] for k in ('shape', 'vals', 'layout', 'ns')}
    if 'only' in case:
        base['only'] = case['only']
    out = P.replay_case(check, base)
    return out
