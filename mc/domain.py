"""The shared finite domain: shapes, sparsity masks, value pools, id styles, metadata kinds,
header variants and layout prefixes.  Everything is enumerable and JSON-describable: a
table spec is a plain dict from which `build(spec)` constructs a fresh real Table.
"""
import itertools

import numpy as np

QUICK_SHAPES = [(1, 1), (1, 2), (2, 1), (2, 2), (2, 3), (3, 2)]
THOROUGH_SHAPES = QUICK_SHAPES + [(1, 3), (3, 1), (3, 3)]

# "hard" values for IO properties (no arithmetic happens, bit identity is the oracle)
HARD = [1.0, 0.5, -3.5, 1e-7, 0.1234567891234567, 1e20, 5e-324, 9007199254740993.0,
        123456.789012345, 1.0 / 3.0, 2.5e-10, 7.0, 1e-300, 33.0, -1e-9, 1234567.0]


# every magnitude class once more, explicitly (used by the per-value products): subnormal, tiny, below 1e-8,
# around the %f / %g / isclose thresholds, 17 significant digits, exponent notation both ways, huge
EXTRA = [1e-8, 3e-9, 9.999999e-7, 1e-6, 1.0000001e-6, 1e-5, 1e-16, 2.2250738585072014e-308, 4.9e-324,
         1e15, 1e16, 2.5e+17, 1.7976931348623157e308, 0.30000000000000004, 100000.0, 123456789.123456789,
         6.02214076e23, 1e22, 1e23, 0.1, 2.0 ** -1074, 2.0 ** 53, 2.0 ** 53 + 2]


# tables whose rows and/or columns hold mixed-sign values that cancel exactly (a zero total is not an empty vector)
CANCEL = [([2, 3], [-2.5, 0.0, 2.5, 1.0, -0.25, -0.75]), ([3, 2], [1e300, -1e300, 2.0, -2.0, 0.0, 5.0]),
          ([2, 2], [1.0, -1.0, -1.0, 1.0]), ([1, 2], [3.0, -3.0]), ([2, 1], [-7.0, 7.0])]


def all_values():
    vals = []
    for v in HARD + EXTRA:
        for x in (v, -v):
            if x not in vals:
                vals.append(x)
    return vals


def shapes(tier):
    return QUICK_SHAPES if tier == 'quick' else THOROUGH_SHAPES


def masks(shape):
    n = shape[0] * shape[1]
    return list(range(1 << n))


def matrix(shape, mask, rot=0, pool=None):
    """dense list-of-lists: cell k gets pool[(k+rot) % len] if bit k of mask is set"""
    pool = pool or HARD
    N, M = shape
    out = []
    for i in range(N):
        row = []
        for j in range(M):
            k = i * M + j
            row.append(pool[(k + rot) % len(pool)] if (mask >> k) & 1 else 0.0)
        out.append(row)
    return out


OPS_POOL = [1.0, 2.0, 3.0, 0.5, 5.0, 0.25, 7.0, 8.0, 9.0, 1.5, 11.0, 0.75]   # integers and dyadics
INT_POOL = [1.0, 2.0, 3.0, 4.0, 5.0, 6.0, 7.0, 8.0, 9.0]


# ------------------------------------------------------------------------- ids
ID_STYLES = ['plain', 'natsort', 'mixedwidth', 'long', 'punct', 'slash', 'nonascii', 'numeric', 'oddquote']


def ids_for(style, axis, n):
    p = 'o' if axis == 'observation' else 's'
    if style == 'plain':
        return ['%s%d' % (p, i + 1) for i in range(n)]
    if style == 'natsort':
        return ['%s%s' % (p, x) for x in ['10', '9', '2', '1'][:n]]
    if style == 'mixedwidth':
        return [p + 'x' * (3 * i) for i in range(n)]
    if style == 'long':
        return ['%s%d_' % (p, i) + 'L' * 300 for i in range(n)]
    if style == 'punct':
        return ['%s %d "q" \'a\' \\b, {c}: [d]; %%s~!@$^&*()=+|<>?' % (p, i) for i in range(n)]
    if style == 'slash':
        return ['%s/a/b%d/' % (p, i) for i in range(n)]
    if style == 'nonascii':
        return [p + x for x in ['ö', '日本語', 'ßé\U0001f600', 'Ж'][:n]]
    if style == 'oddquote':
        # an unbalanced double quote, a lone bracket / brace, a backslash, a comma: text that a hand-written
        # scanner may mistake for structure
        return (['"' + p + '1'] + [p + x for x in [']2 {', '\\3,', '[4"']])[:n]      # the first id STARTS with a quote
    if style == 'numeric':
        base = ['1', '2.5', '1e3', 'nan'] if axis == 'observation' else ['7', '0.5', '-3', 'inf']
        return base[:n]
    if style == 'edgews':
        # leading / trailing white space is part of an id (not in ID_STYLES: only the formats that can carry it
        # - HDF5 and JSON - enumerate it)
        return [p + x for x in ['1\n', '2\u3000', ' 3', '4 \x1f']][:n]      # the first one is plain text + a line feed
    raise KeyError(style)


# ------------------------------------------------------------------------- metadata
MD_KINDS = ['none', 'text', 'textodd', 'int', 'float', 'bool', 'taxonomy', 'taxonomy_ragged',
            'collapsed_ids', 'slashkey', 'two', 'taxonomy_nonascii', 'mixednum']


def md_for(kind, axis, n):
    """list of dicts (one per id) or None"""
    if kind == 'none':
        return None
    out = []
    for i in range(n):
        if kind == 'text':
            d = {'label': 'val%d' % i}
        elif kind == 'textodd':
            d = {'label': ['a "quoted" \\ value', 'spät 日本', 'x', 'tab?;,'][i % 4]}
        elif kind == 'int':
            d = {'depth': 3 * i + 1}
        elif kind == 'float':
            d = {'ph': [7.25, 0.1, -2.5, 1e-7][i % 4]}
        elif kind == 'bool':
            d = {'flag': bool(i % 2)}
        elif kind == 'taxonomy':
            d = {'taxonomy': ['k__A', 'p__B%d' % i, 's__C']}
        elif kind == 'taxonomy_ragged':
            d = {'taxonomy': ['k__A', 'p__B', 'c__C', 'o__D'][:1 + (i % 3)]}
        elif kind == 'taxonomy_nonascii':
            # non-ASCII levels whose UTF-8 encoding is longer than their character count
            d = {'taxonomy': [['k__Bactéries', 'p__Protéobactéries'], ['k__細菌', 'p__プロテオバクテリア門', 's__x'],
                              ['k__A', 'p__ß']][i % 3]}
        elif kind == 'mixednum':
            # a numeric category whose first value has the narrowest type
            d = {'score': [7, 6.5, 8.25, -0.75][i % 4], 'flag': [True, 3, 0, 2.5][i % 4]}
        elif kind == 'subsetfirst':  # the first id carries a strict subset of the categories of the later ids
            d = {'other': 'x%d' % i} if i == 0 else {'other': 'x%d' % i, 'label': 'val%d' % i}
        elif kind == 'casevariant':   # category names that differ from the reserved hierarchical ones in case only
            d = {'TAXONOMY': 'text%d' % i, 'Collapsed_IDs': i + 1, 'kegg_pathways': ['x', ''][i % 2]}
        elif kind == 'textws':       # text whose first / last character is white space (not in MD_KINDS, see 'edgews')
            d = {'label': ['val ', ' val', 'v\u3000', 'x \x1f'][i % 4], 'taxonomy': ['k__A ', ' p__B%d' % i]}
        elif kind == 'taxonomy_gap':     # a hierarchical list with an empty level (not in MD_KINDS: C01 excludes it)
            d = {'taxonomy': [['k__A', '', 's__C%d' % i], ['k__A', '', '', 'g__G'], ['k__B', 'p__X', '', 's__%d' % i]][i % 3]}
        elif kind == 'listgeneric':      # list values under a name that is not one of the reserved hierarchical ones
            d = {'path': ['a', 'bb', 'c'][:1 + (i % 3)]}        # (not in MD_KINDS: the reader hands these back as arrays)
        elif kind == 'tuplegeneric':     # the same as tuples, ragged; and a category that mixes both
            d = {'path': ('a', 'bb', 'c')[:1 + (i % 3)], 'mix': [('u', 'v'), ['w']][i % 2]}
        elif kind == 'collapsed_ids':
            d = {'collapsed_ids': ['m%d' % i, 'n%d' % i][:1 + (i % 2)]}
        elif kind == 'slashkey':
            d = {'a/b': 'v%d' % i}
        elif kind == 'two':
            d = {'label': 'val%d' % i, 'depth': i + 10}
        else:
            raise KeyError(kind)
        out.append(d)
    return out


TYPES = [None, 'OTU table', 'Pathway table', 'Function table', 'Ortholog table', 'Gene table',
         'Metabolite table', 'Taxon table']
HEADERS = [
    {'type': None, 'table_id': None, 'generated_by': None},
    {'type': 'OTU table', 'table_id': 'my table', 'generated_by': 'unit harness 1.0'},
    {'type': 'Taxon table', 'table_id': 'id with "quotes" and \\ backslash ü',
     'generated_by': 'gen "q" \\ 日本'},
]

# ------------------------------------------------------------------------- layouts
LAYOUTS = ['csr', 'csc', 'unsorted', 'unsorted_input', 'stored0_input', 'coo_input', 'filtered', 'TT',
           'stored0_matrix_data', 'subsample_full']


def build(spec):
    """spec keys: shape, mask, rot, pool ('hard'|'ops'|'int'), obs_style, samp_style, obs_md,
    samp_md, header (index), layout.  Returns a fresh real Table (content as described)."""
    import scipy.sparse as sp
    from biom import Table
    shape = tuple(spec['shape'])
    pool = {'hard': HARD, 'ops': OPS_POOL, 'int': INT_POOL}[spec.get('pool', 'hard')]
    if 'vals' in spec:       # explicit cell values (row-major) instead of mask/pool
        D = np.array(spec['vals'], dtype=float).reshape(shape)
    else:
        D = np.array(matrix(shape, spec['mask'], spec.get('rot', 0), pool), dtype=float).reshape(shape)
    oids = ids_for(spec.get('obs_style', 'plain'), 'observation', shape[0])
    sids = ids_for(spec.get('samp_style', 'plain'), 'sample', shape[1])
    omd = md_for(spec.get('obs_md', 'none'), 'observation', shape[0])
    smd = md_for(spec.get('samp_md', 'none'), 'sample', shape[1])
    hd = dict(HEADERS[spec.get('header', 0)])
    if 'type' in spec:
        hd['type'] = spec['type']
    kw = dict(table_id=hd['table_id'], type=hd['type'], generated_by=hd['generated_by'])
    lay = spec.get('layout', 'csr')
    if lay in ('csr', 'csc', 'TT', 'subsample_full'):
        t = Table(D, oids, sids, omd, smd, **kw)
        if lay == 'csc':
            if shape[1]:
                t.data(sids[0], 'sample')
        elif lay == 'TT':
            ty = t.type
            t = t.transpose().transpose()
            t.type = ty
            t.table_id, t.generated_by = kw['table_id'], kw['generated_by']
        elif lay == 'subsample_full':
            tot = D.sum(axis=0)
            if not (np.all(D >= 0) and np.all(D == np.floor(D)) and len(set(tot)) == 1 and tot[0] >= 1):
                return None
            t2 = t.subsample(int(tot[0]), seed=3)
            if t2.shape != t.shape:
                return None
            t2.table_id, t2.generated_by = kw['table_id'], kw['generated_by']
            t = t2
        return t
    if lay == 'stored0_matrix_data':
        # the one route by which a caller can still leave an explicitly stored zero behind: overwriting an
        # existing entry of the exposed matrix (the constructor, transform and subsample prune theirs)
        nz = np.argwhere(D != 0)
        if len(nz) == 0:
            return None
        t = Table(D, oids, sids, omd, smd, **kw)
        i, j = (int(x) for x in nz[len(nz) // 2])
        t.matrix_data[i, j] = 0.0
        return t
    if lay == 'unsorted':
        rs = sids[::-1]
        rmd = None if smd is None else smd[::-1]
        t = Table(D[:, ::-1], oids, rs, omd, rmd, **kw)
        t2 = t.sort_order(sids, axis='sample')
        t2.table_id, t2.generated_by = kw['table_id'], kw['generated_by']
        return t2
    if lay == 'unsorted_input':
        m = sp.csr_matrix(D)
        for r in range(shape[0]):
            a, b = m.indptr[r], m.indptr[r + 1]
            m.indices[a:b] = m.indices[a:b][::-1].copy()
            m.data[a:b] = m.data[a:b][::-1].copy()
        m.has_sorted_indices = False
        return Table(m, oids, sids, omd, smd, **kw)
    if lay == 'stored0_input':
        rows, cols, vals = [], [], []
        for i in range(shape[0]):
            for j in range(shape[1]):
                rows.append(i)
                cols.append(j)
                vals.append(D[i, j])     # zeros are stored explicitly
        m = sp.csc_matrix((np.array(vals, float), (np.array(rows, int), np.array(cols, int))),
                          shape=shape)
        return Table(m, oids, sids, omd, smd, **kw)
    if lay == 'coo_input':
        return Table(sp.coo_matrix(D), oids, sids, omd, smd, **kw)
    if lay == 'filtered':
        D2 = np.zeros((shape[0] + 1, shape[1] + 1))
        D2[1:, 1:] = D
        D2[0, 0] = 99.0
        D2[0, 1:] = 5.0
        D2[1:, 0] = 6.0
        xo, xs = 'xtra_obs', 'xtra_samp'
        omd2 = None if omd is None else [dict(omd[0])] + omd if omd else omd
        smd2 = None if smd is None else [dict(smd[0])] + smd if smd else smd
        t = Table(D2, [xo] + oids, [xs] + sids, omd2, smd2, **kw)
        t.filter([xo], axis='observation', invert=True)
        t.filter([xs], axis='sample', invert=True)
        return t
    raise KeyError(lay)


def describe(spec):
    return {k: spec[k] for k in sorted(spec)}


def perms(seq):
    return list(itertools.permutations(seq))
