"""Known-findings file: read-only at run time.

/verif/known_findings.txt, one entry per line:

    open:  property=<ID> sig=<signature> <what fails>
    fixed: property=<ID> <commit> sig=<signature> <what failed>

Only `open` entries suppress anything, and only the violation whose signature is exactly
the listed one (a signature = oracle clause + call site + input class, produced by the
check).  `fixed` entries are documentation: if the violation returns it is reported.
"""
import os
import re

from .core import VERIF

PATH = os.path.join(VERIF, 'known_findings.txt')
_LINE = re.compile(r'^(open|fixed):\s+property=(\S+)\s+(?:([0-9a-f]{7,40})\s+)?sig=(\S+)\s+(.*)$')


def load(path=PATH):
    out = []
    if not os.path.exists(path):
        return out
    for ln in open(path, encoding='utf-8'):
        ln = ln.rstrip('\n')
        if not ln.strip() or ln.lstrip().startswith('#'):
            continue
        m = _LINE.match(ln)
        if not m:
            raise SystemExit('known_findings.txt: cannot parse line: %r' % ln)
        out.append({'status': m.group(1), 'property': m.group(2), 'commit': m.group(3),
                    'sig': m.group(4), 'what': m.group(5)})
    return out


def match(kf, pid, sig):
    for f in kf:
        if f['status'] == 'open' and f['property'] == pid and f['sig'] == sig:
            return f
    return None
