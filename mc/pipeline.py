"""E2 – small-scope pipeline enumerator.

A property module lists JSON-able case specs (the full cartesian product of its finite
domains, nothing drawn at random) and a `check(case, acc, tmp)` that runs the pipeline on
the real code and reports violations.  `run_cases` executes every case on the fork pool.
"""
import os
import shutil
import tempfile
import traceback

from .core import h64

_CHECK = None


def _work(chunk, acc):
    tmp = tempfile.mkdtemp(prefix='verif-e2-')
    try:
        for case in chunk:
            try:
                _CHECK(case, acc, tmp)
            except Exception:
                acc.violation('HARNESS-ERROR', traceback.format_exc()[-2500:], case)
            acc.traces += 1
        if chunk:
            acc.sample(chunk[0], cap=2)
    finally:
        shutil.rmtree(tmp, ignore_errors=True)


def run_cases(run, cases, check, nchunks=None):
    global _CHECK
    _CHECK = check
    cases = list(cases)
    run.pmap(_work, cases, nchunks=nchunks)
    return len(cases)


def replay_case(check, case):
    from .core import Acc
    acc = Acc()
    tmp = tempfile.mkdtemp(prefix='verif-replay-')
    try:
        check(case, acc, tmp)
    finally:
        shutil.rmtree(tmp, ignore_errors=True)
    out = []
    for sig, (n, ex) in acc.viol.items():
        for detail, _ in ex:
            out.append((sig, detail))
    return out


def state(acc, *parts):
    acc.states.add(h64(parts))
