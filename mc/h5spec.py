"""Independent decoder / validator of BIOM 2.1 HDF5 files.

Written from the specification text `doc/documentation/format_versions/biom-2.1.rst`
(section lists "Required top-level attributes", "Required groups", "Required datasets",
the paragraphs on metadata and group-metadata datasets and the DDL example) with raw
`h5py` and `numpy` only.  This module must never import `biom` (nor scipy): it is the
oracle of C04 and shares no code with the implementation.

    decode(path_or_h5file)      -> dict   (tolerant: whatever can be decoded, None otherwise)
    conformance(path_or_h5file) -> [(clause, detail), ...]   file-internal clauses only
    compare(decoded, source)    -> [(clause, detail), ...]   file vs. a plain description of
                                                             the table that was written

Clause names are stable, contain no ids / numbers / paths of the concrete case and are
used verbatim as violation signatures by mc/props/c04.py.

Reading of the specification (where the text leaves a choice, the weaker demand is taken):

* string-valued attributes: any HDF5 string datatype (fixed or variable length, either
  character set); `id` may also be an HDF5 null dataspace ("string or null").
* `shape`, `format-version`: one-dimensional integer attribute with two elements;
  `nnz`: scalar (or one-element) integer attribute; integer width is not prescribed (the
  DDL example shows H5T_STD_I64LE).  `format-version` must be (2, 1).
* `creation-date` must parse as ISO 8601 (datetime.fromisoformat).
* `type` is only required to be a string; the vocabulary is not enforced (the property
  speaks of element types, and an absent type is written as the empty string).
* ids: "<string> or <variable length string>", one-dimensional; the *datatype* is checked
  even for a dataset without elements.  Bytes are decoded as UTF-8.
* `matrix/data` float64, `matrix/indices` and `matrix/indptr` int32 (exactly: 8-byte IEEE
  float, 4-byte signed integer), one-dimensional.
* The offsets array of the observation-oriented (compressed row) copy has
  #observations + 1 entries, that of the sample-oriented (compressed column) copy has
  #samples + 1 entries.  (The spec's "(M+1,)" / "(N+1,)" letters are swapped with respect
  to its own definition of N and M in the `ids` lines; the arithmetic meaning of
  "compressed row offsets" / "compressed column offsets" is taken.)
* Well formed: offsets start at 0, never decrease, end at nnz = len(data) = len(indices);
  indices within [0, length of the other axis); no stored value equal to zero.  Sorted
  indices are not demanded.  A coordinate stored twice counts as the sum (the usual
  meaning of compressed formats) and is reported separately.
* Every dataset below `<axis>/metadata` (at any depth – a category name containing "/"
  necessarily becomes a nested path unless the writer escapes it) has one leading entry
  per id.  Values are decoded as: strings -> str (UTF-8), 2-d string datasets -> list of
  str per id (all cells, including empty padding cells), numbers / booleans -> python
  scalars.
* Every dataset below `<axis>/group-metadata` holds a single string and carries a
  `data_type` attribute.
"""
import datetime

import h5py
import numpy as np

AXES = ('observation', 'sample')
STRING_ATTRS = ('id', 'type', 'format-url', 'generated-by', 'creation-date')
INT_PAIR_ATTRS = ('format-version', 'shape')
REQUIRED_ATTRS = STRING_ATTRS + INT_PAIR_ATTRS + ('nnz',)
REQUIRED_GROUPS = tuple('%s%s' % (a, s) for a in AXES
                        for s in ('', '/matrix', '/metadata', '/group-metadata'))
MATRIX_DTYPES = {'data': ('f', 8), 'indices': ('i', 4), 'indptr': ('i', 4)}
ORIENT = {'observation': 'csr', 'sample': 'csc'}


def _is_string_dtype(dt):
    if dt is None:
        return False
    if h5py.check_string_dtype(dt) is not None:
        return True
    return dt.kind in ('S', 'U')


def _dtype_name(dt):
    if dt is None:
        return 'none'
    si = h5py.check_string_dtype(dt)
    if si is not None:
        return 'string(%s,%s)' % (si.encoding, 'variable' if si.length is None else si.length)
    return str(dt)


def _text(x):
    """bytes / str / numpy scalar -> str (UTF-8); raises UnicodeDecodeError"""
    if isinstance(x, (bytes, np.bytes_)):
        return bytes(x).decode('utf-8')
    return str(x)


def _open(src):
    if isinstance(src, (h5py.File, h5py.Group)):
        return src, False
    return h5py.File(src, 'r'), True


class _Scan:
    def __init__(self, h5):
        self.h5 = h5
        self.problems = []
        self.out = {'attrs': {}, 'attr_types': {}, 'problems': self.problems}

    def bad(self, clause, detail):
        self.problems.append((clause, detail))

    # ---------------------------------------------------------------- attributes
    def attrs(self):
        h5 = self.h5
        for name in REQUIRED_ATTRS:
            if name not in h5.attrs:
                self.bad('attr-missing:' + name, 'required top-level attribute %r is absent' % name)
                self.out['attrs'][name] = None
                continue
            aid = h5.attrs.get_id(name)
            try:
                dt = aid.dtype
            except Exception:       # null dataspace attribute of exotic type
                dt = None
            shape = tuple(aid.shape) if aid.shape is not None else None
            val = h5.attrs[name]
            self.out['attr_types'][name] = (_dtype_name(dt), shape)
            if name in STRING_ATTRS:
                if isinstance(val, h5py.Empty):
                    if name == 'id':
                        self.out['attrs'][name] = None
                    else:
                        self.bad('attr-kind:' + name, 'attribute %r is a null dataspace, a string '
                                 'is required' % name)
                        self.out['attrs'][name] = None
                    continue
                if not _is_string_dtype(dt):
                    self.bad('attr-kind:' + name, 'attribute %r has datatype %s, a string is required'
                             % (name, _dtype_name(dt)))
                    self.out['attrs'][name] = None
                    continue
                if np.ndim(val) != 0:
                    if np.size(val) != 1:
                        self.bad('attr-kind:' + name, 'attribute %r holds %d strings, one is required'
                                 % (name, np.size(val)))
                        self.out['attrs'][name] = None
                        continue
                    val = np.asarray(val).reshape(-1)[0]
                try:
                    self.out['attrs'][name] = _text(val)
                except UnicodeDecodeError as e:
                    self.bad('attr-decode:' + name, 'attribute %r is not UTF-8: %s' % (name, e))
                    self.out['attrs'][name] = None
            elif name in INT_PAIR_ATTRS:
                arr = np.asarray(val)
                if isinstance(val, h5py.Empty) or arr.dtype.kind not in 'iu' or arr.shape != (2,):
                    self.bad('attr-kind:' + name, 'attribute %r is %s of shape %r, two integers are '
                             'required' % (name, _dtype_name(dt), shape))
                    self.out['attrs'][name] = None
                else:
                    self.out['attrs'][name] = [int(arr[0]), int(arr[1])]
            else:   # nnz
                arr = np.asarray(val)
                if isinstance(val, h5py.Empty) or arr.dtype.kind not in 'iu' or arr.size != 1:
                    self.bad('attr-kind:nnz', 'attribute nnz is %s of shape %r, one integer is required'
                             % (_dtype_name(dt), shape))
                    self.out['attrs'][name] = None
                else:
                    self.out['attrs'][name] = int(arr.reshape(-1)[0])
        a = self.out['attrs']
        if a.get('format-version') is not None and a['format-version'] != [2, 1]:
            self.bad('attr-value:format-version', 'format-version is %r, this is a 2.1 file check'
                     % (a['format-version'],))
        if a.get('creation-date') is not None:
            try:
                datetime.datetime.fromisoformat(a['creation-date'])
            except ValueError:
                self.bad('attr-value:creation-date', 'creation-date %r is not ISO 8601'
                         % a['creation-date'])
        if a.get('shape') is not None and min(a['shape']) < 0:
            self.bad('attr-value:shape', 'shape %r has a negative entry' % (a['shape'],))
        if a.get('nnz') is not None and a['nnz'] < 0:
            self.bad('attr-value:nnz', 'nnz %r is negative' % a['nnz'])

    # ---------------------------------------------------------------- structure
    def _get(self, path, kind):
        try:
            link = self.h5.get(path, getclass=True)
        except Exception:
            link = None
        if link is None:
            return None
        obj = self.h5[path]
        if kind == 'group' and isinstance(obj, h5py.Group):
            return obj
        if kind == 'dataset' and isinstance(obj, h5py.Dataset):
            return obj
        return False      # present, wrong kind of object

    def groups(self):
        self.grp = {}
        for path in REQUIRED_GROUPS:
            g = self._get(path, 'group')
            if g is None:
                self.bad('group-missing:' + path, 'required group %r is absent' % path)
            elif g is False:
                self.bad('group-missing:' + path, '%r exists but is not a group' % path)
                g = None
            self.grp[path] = g

    def _dataset(self, path):
        d = self._get(path, 'dataset')
        if d is None:
            self.bad('dataset-missing:' + path, 'required dataset %r is absent' % path)
        elif d is False:
            self.bad('dataset-missing:' + path, '%r exists but is not a dataset' % path)
            d = None
        return d

    # ---------------------------------------------------------------- ids
    def ids(self, axis):
        ax = self.out[axis]
        ax['ids'] = None
        ax['ids_dtype'] = None
        d = self._dataset(axis + '/ids')
        if d is None:
            return
        ax['ids_dtype'] = _dtype_name(d.dtype)
        ax['ids_shape'] = tuple(d.shape)
        ok = True
        if not _is_string_dtype(d.dtype):
            ok = False
            self.bad('dtype:ids:zero-length' if d.size == 0 else 'dtype:ids',
                     '%s/ids (%d element(s)) has HDF5 datatype %s; the specification requires '
                     '<string> or <variable length string>' % (axis, d.size, _dtype_name(d.dtype)))
        if d.ndim != 1:
            self.bad('rank:ids', '%s/ids has rank %d, a (N,) dataset is required' % (axis, d.ndim))
            return
        if d.size == 0:
            ax['ids'] = []
            return
        if not ok:
            return
        raw = d[()]
        try:
            ax['ids'] = [_text(x) for x in raw]
        except UnicodeDecodeError as e:
            self.bad('ids-decode', '%s/ids holds bytes that are not UTF-8: %s' % (axis, e))

    # ---------------------------------------------------------------- matrix
    def matrix(self, axis):
        ax = self.out[axis]
        m = {}
        ax['matrix'] = m
        ax['dense'] = None
        good = True
        for name, (kind, size) in MATRIX_DTYPES.items():
            path = '%s/matrix/%s' % (axis, name)
            d = self._dataset(path)
            m[name] = None
            if d is None:
                good = False
                continue
            dt = d.dtype
            if h5py.check_string_dtype(dt) is not None or dt.kind != kind or dt.itemsize != size:
                self.bad('dtype:%s' % path, '%s has HDF5 datatype %s; the specification requires %s'
                         % (path, _dtype_name(dt), 'float64' if kind == 'f' else 'int32'))
                if h5py.check_string_dtype(dt) is not None or dt.kind not in 'iuf':
                    good = False
                    continue
            if d.ndim != 1:
                self.bad('rank:%s' % path, '%s has rank %d, a one-dimensional dataset is required'
                         % (path, d.ndim))
                good = False
                continue
            m[name] = np.asarray(d[()])
        ax['matrix_ok'] = good

    def wellformed(self, axis):
        """needs ids of both axes (lengths) or the shape attribute"""
        ax = self.out[axis]
        o = ORIENT[axis]
        if not ax.get('matrix_ok'):
            return
        m = ax['matrix']
        data, indices, indptr = m['data'], m['indices'], m['indptr']
        dims = self.dims()
        if dims is None:
            return
        n_major = dims[0] if axis == 'observation' else dims[1]
        n_minor = dims[1] if axis == 'observation' else dims[0]
        ok = True
        if len(indices) != len(data):
            self.bad(o + ':indices-length', '%s/matrix: %d indices for %d data values'
                     % (axis, len(indices), len(data)))
            ok = False
        if len(indptr) != n_major + 1:
            self.bad(o + ':indptr-length', '%s/matrix/indptr has %d entries for %d %ss (%d required)'
                     % (axis, len(indptr), n_major, axis, n_major + 1))
            ok = False
        if len(indptr):
            if int(indptr[0]) != 0:
                self.bad(o + ':indptr-start', '%s/matrix/indptr starts at %d' % (axis, int(indptr[0])))
                ok = False
            if np.any(np.diff(indptr.astype(np.int64)) < 0):
                self.bad(o + ':indptr-monotone', '%s/matrix/indptr decreases: %r'
                         % (axis, indptr.tolist()))
                ok = False
            if int(indptr[-1]) != len(data):
                self.bad(o + ':indptr-end', '%s/matrix/indptr ends at %d, there are %d data values'
                         % (axis, int(indptr[-1]), len(data)))
                ok = False
        if len(indices) and (int(indices.min()) < 0 or int(indices.max()) >= n_minor):
            self.bad(o + ':indices-range', '%s/matrix/indices %r outside [0, %d)'
                     % (axis, indices.tolist(), n_minor))
            ok = False
        nnz = self.out['attrs'].get('nnz')
        if nnz is not None and nnz != len(data):
            self.bad('nnz-vs-data:' + o, 'attribute nnz is %d, %s/matrix/data has %d values'
                     % (nnz, axis, len(data)))
        if len(data) and np.any(data == 0):
            self.bad(o + ':stored-zero', '%s/matrix/data stores %d explicit zero(s): %r'
                     % (axis, int(np.sum(data == 0)), data.tolist()))
        if not ok:
            return
        dense = np.zeros((n_major, n_minor), dtype=np.float64)
        seen = set()
        dup = False
        for k in range(n_major):
            for p in range(int(indptr[k]), int(indptr[k + 1])):
                j = int(indices[p])
                if (k, j) in seen:
                    dup = True
                    dense[k, j] += float(data[p])
                else:
                    seen.add((k, j))
                    dense[k, j] = float(data[p])
        if dup:
            self.bad(o + ':duplicate-coordinate', '%s/matrix stores a coordinate more than once' % axis)
        ax['dense'] = dense if axis == 'observation' else dense.T.copy()

    def dims(self):
        """(#observations, #samples) as the ids datasets say, else the shape attribute"""
        out = []
        for k, axis in enumerate(AXES):
            ids = self.out[axis].get('ids')
            shp = self.out[axis].get('ids_shape')
            if ids is not None:
                out.append(len(ids))
            elif shp is not None and len(shp) == 1:
                out.append(int(shp[0]))
            elif self.out['attrs'].get('shape') is not None:
                out.append(self.out['attrs']['shape'][k])
            else:
                return None
        return tuple(out)

    # ---------------------------------------------------------------- metadata
    def metadata(self, axis):
        ax = self.out[axis]
        ax['metadata'] = {}
        g = self.grp.get(axis + '/metadata')
        if g is None:
            ax['metadata'] = None
            return
        leaves = []

        def visit(name, obj):
            if isinstance(obj, h5py.Dataset):
                leaves.append(name)
        g.visititems(visit)
        shp = ax.get('ids_shape')
        n = shp[0] if shp is not None and len(shp) == 1 else None
        for name in sorted(leaves):
            d = g[name]
            ent = {'shape': tuple(d.shape), 'dtype': _dtype_name(d.dtype), 'kind': None, 'values': None}
            ax['metadata'][name] = ent
            if d.ndim < 1 or (n is not None and d.shape[0] != n):
                self.bad('metadata-length', '%s/metadata/%s has shape %r for %s ids: one leading entry '
                         'per id is required' % (axis, name, tuple(d.shape), n))
                continue
            try:
                raw = d[()]
            except Exception as e:
                self.bad('metadata-unreadable', '%s/metadata/%s cannot be read: %s' % (axis, name, e))
                continue
            try:
                if _is_string_dtype(d.dtype):
                    ent['kind'] = 'str' if d.ndim == 1 else 'strlist'
                    if d.ndim == 1:
                        ent['values'] = [_text(x) for x in raw]
                    else:
                        ent['values'] = [[_text(x) for x in np.asarray(row, dtype=object).reshape(-1)]
                                         for row in raw]
                elif d.dtype.kind == 'b':
                    ent['kind'] = 'bool'
                    ent['values'] = np.asarray(raw).tolist()
                elif d.dtype.kind in 'iuf':
                    ent['kind'] = 'num'
                    ent['values'] = np.asarray(raw).tolist()
                else:
                    ent['kind'] = 'other'
                    ent['values'] = np.asarray(raw).tolist()
            except UnicodeDecodeError as e:
                self.bad('metadata-decode', '%s/metadata/%s holds bytes that are not UTF-8: %s'
                         % (axis, name, e))

    def group_metadata(self, axis):
        ax = self.out[axis]
        ax['group_metadata'] = {}
        g = self.grp.get(axis + '/group-metadata')
        if g is None:
            ax['group_metadata'] = None
            return
        leaves = []

        def visit(name, obj):
            if isinstance(obj, h5py.Dataset):
                leaves.append(name)
        g.visititems(visit)
        for name in sorted(leaves):
            d = g[name]
            ent = {'shape': tuple(d.shape), 'dtype': _dtype_name(d.dtype), 'data_type': None,
                   'payload': None}
            ax['group_metadata'][name] = ent
            if not _is_string_dtype(d.dtype) or d.size != 1:
                self.bad('group-metadata:kind', '%s/group-metadata/%s is %s of shape %r; a single string '
                         'is required' % (axis, name, _dtype_name(d.dtype), tuple(d.shape)))
                continue
            try:
                ent['payload'] = _text(np.asarray(d[()], dtype=object).reshape(-1)[0])
            except UnicodeDecodeError as e:
                self.bad('group-metadata:decode', '%s/group-metadata/%s is not UTF-8: %s' % (axis, name, e))
            if 'data_type' not in d.attrs:
                self.bad('group-metadata:data_type', '%s/group-metadata/%s has no data_type attribute'
                         % (axis, name))
            else:
                try:
                    ent['data_type'] = _text(d.attrs['data_type'])
                except Exception:
                    self.bad('group-metadata:data_type', '%s/group-metadata/%s: data_type is not a string'
                             % (axis, name))

    # ---------------------------------------------------------------- cross clauses
    def cross(self):
        a = self.out['attrs']
        dims = self.dims()
        got_ids = all(self.out[x].get('ids_shape') is not None for x in AXES)
        if a.get('shape') is not None and got_ids and dims is not None and tuple(a['shape']) != dims:
            self.bad('shape-vs-ids', 'attribute shape is %r, the ids datasets hold %d observation and '
                     '%d sample ids' % (tuple(a['shape']), dims[0], dims[1]))
        do, ds = self.out['observation'].get('dense'), self.out['sample'].get('dense')
        if do is not None and ds is not None:
            if do.shape != ds.shape or not np.array_equal(_bits(do), _bits(ds)):
                self.bad('csr-vs-csc', 'the observation-oriented copy decodes to %r, the sample-oriented '
                         'copy to %r' % (do.tolist(), ds.tolist()))
            nz = int(np.count_nonzero(do))
            if a.get('nnz') is not None and a['nnz'] != nz and \
                    not any(c.endswith(':duplicate-coordinate') for c, _ in self.problems):
                self.bad('nnz-vs-matrix', 'attribute nnz is %d, the decoded matrix has %d non-zero cells'
                         % (a['nnz'], nz))


def _bits(a):
    a = np.ascontiguousarray(a, dtype=np.float64)
    return a.view(np.uint64) if a.size else a


def _scan(src):
    h5, close = _open(src)
    try:
        s = _Scan(h5)
        s.out['observation'] = {}
        s.out['sample'] = {}
        s.attrs()
        s.groups()
        for axis in AXES:
            s.ids(axis)
        for axis in AXES:
            s.matrix(axis)
        for axis in AXES:
            s.wellformed(axis)
            s.metadata(axis)
            s.group_metadata(axis)
        s.cross()
        return s.out
    finally:
        if close:
            h5.close()


def decode(src):
    """Decode a BIOM 2.1 HDF5 file (path, h5py.File or group).

    Returns {'attrs': {...python values...}, 'attr_types': {name: (datatype, shape)},
             'observation' / 'sample': {'ids': [str] | None, 'ids_dtype', 'ids_shape',
                 'metadata': {dataset path: {'shape','dtype','kind','values'}} | None,
                 'group_metadata': {name: {'data_type','payload',...}} | None,
                 'matrix': {'data','indices','indptr': ndarray | None},
                 'dense': float64 ndarray (observations x samples) decoded from this
                          orientation alone, or None when it is not well formed},
             'problems': [(clause, detail), ...]}"""
    return _scan(src)


def conformance(src):
    """Every file-internal clause of the 2.1 specification that the file breaks."""
    return list(_scan(src)['problems'])


# ------------------------------------------------------------------------- file vs source
def _num_equal(a, b):
    try:
        return float(a) == float(b)
    except (TypeError, ValueError):
        return False


def compare(dec, src):
    """Clauses that relate the file to the table that was written.

    src = {'obs_ids': [str], 'samp_ids': [str], 'bits': tuple of tuples of uint64 images of the
           float64 cells, 'obs_md' / 'samp_md': None | [ {category: value} per id ]}
    (values: str | int | float | bool | list of non-empty str).  Metadata categories whose
    name contains '/' cannot be a plain HDF5 link name; for them only existence of exactly one
    otherwise unexplained dataset with the right values is demanded."""
    out = []
    dims = (len(src['obs_ids']), len(src['samp_ids']))
    a = dec['attrs']
    if a.get('shape') is not None and tuple(a['shape']) != dims:
        out.append(('shape-vs-source', 'attribute shape is %r, the table written is %d x %d'
                    % (tuple(a['shape']), dims[0], dims[1])))
    want = np.array(src['bits'], dtype=np.uint64).reshape(dims) if dims[0] * dims[1] else \
        np.zeros(dims, dtype=np.uint64)
    true_nnz = int(np.count_nonzero(want.view(np.float64))) if want.size else 0
    if a.get('nnz') is not None and a['nnz'] != true_nnz:
        out.append(('nnz-vs-source', 'attribute nnz is %d, the table written has %d non-zero cells'
                    % (a['nnz'], true_nnz)))
    for axis, key in (('observation', 'obs_ids'), ('sample', 'samp_ids')):
        ids = dec[axis].get('ids')
        if ids is not None and list(ids) != list(src[key]):
            out.append(('ids-vs-source', '%s/ids decode to %r, the table written has %r'
                        % (axis, ids, list(src[key]))))
        dense = dec[axis].get('dense')
        if dense is not None:
            o = ORIENT[axis]
            if dense.shape != dims:
                out.append(('matrix-vs-source:' + o, '%s copy has shape %r, the table is %r'
                            % (o, dense.shape, dims)))
            elif dense.size and not np.array_equal(_bits(dense), want):
                i, j = [int(x[0]) for x in np.nonzero(_bits(dense) != want)]
                out.append(('matrix-vs-source:' + o, '%s copy: cell (%d,%d) decodes to %r, the table '
                            'holds %r' % (o, i, j, float(dense[i, j]),
                                          float(want.view(np.float64)[i, j]))))
        # group metadata of the table: one dataset per entry, holding its text payload
        sg = src.get('obs_gmd' if axis == 'observation' else 'samp_gmd') or {}
        fg = dec[axis].get('group_metadata') or {}
        for name, payload in sg.items():
            if name not in fg:
                out.append(('group-metadata:missing', '%s/group-metadata has no dataset %r although the table '
                            'carries that entry (datasets present: %r)' % (axis, name, sorted(fg))))
            elif fg[name].get('payload') != payload:
                out.append(('group-metadata:payload', '%s/group-metadata/%s holds %r, the table %r'
                            % (axis, name, fg[name].get('payload'), payload)))
        md = src['obs_md' if axis == 'observation' else 'samp_md']
        fmd = dec[axis].get('metadata')
        if fmd is None:
            continue
        # every category any id carries (a table may give an id fewer categories than its neighbours)
        cats = sorted(set().union(*[set(m) for m in md])) if md else []
        unexplained = dict(fmd)
        pending = []
        for c in cats:
            if c in unexplained and '/' not in c:
                pending.append((c, unexplained.pop(c)))
            elif '/' in c:
                pending.append((c, None))
            else:
                out.append(('metadata-categories', '%s metadata category %r has no dataset; datasets '
                            'present: %r' % (axis, c, sorted(fmd))))
        for c, ent in list(pending):
            if ent is None:
                if len(unexplained) >= 1:
                    # a name with '/' – take the dataset whose values fit, else any one left
                    pick = None
                    for nm, e in unexplained.items():
                        if not _md_diff(e, [m.get(c, _ABSENT) for m in md]):
                            pick = nm
                            break
                    if pick is None:
                        pick = sorted(unexplained)[0]
                    pending[pending.index((c, None))] = (c, unexplained.pop(pick))
                else:
                    out.append(('metadata-categories', '%s metadata category %r has no dataset; '
                                'datasets present: %r' % (axis, c, sorted(fmd))))
        if unexplained:
            out.append(('metadata-categories', '%s/metadata holds datasets %r that are not categories of '
                        'the table (%r)' % (axis, sorted(unexplained), cats)))
        for c, ent in pending:
            if ent is None:
                continue
            d = _md_diff(ent, [m.get(c, _ABSENT) for m in md])
            if d:
                out.append(('metadata-values', '%s metadata category %r: %s' % (axis, c, d)))
    return out


_ABSENT = object()       # the id does not carry the category: nothing is demanded of its entry


def _md_diff(ent, want):
    """None when the decoded dataset holds `want` (one value per id, in order)"""
    vals = ent.get('values')
    if vals is None:
        return 'dataset could not be decoded (shape %r, datatype %s)' % (ent['shape'], ent['dtype'])
    if len(vals) != len(want):
        return '%d entries for %d ids' % (len(vals), len(want))
    for k, (g, w) in enumerate(zip(vals, want)):
        if w is _ABSENT:
            continue
        if isinstance(w, (list, tuple)):
            if not isinstance(g, list):
                return 'entry %d is %r, the table holds the list %r' % (k, g, list(w))
            if [x for x in g if x != ''] != [str(x) for x in w]:
                return 'entry %d decodes to %r, the table holds %r' % (k, g, list(w))
        elif isinstance(w, str):
            if g != w:
                return 'entry %d decodes to %r, the table holds %r' % (k, g, w)
        elif isinstance(w, (bool, int, float)):
            if isinstance(g, (list, str)) or not _num_equal(g, w):
                return 'entry %d decodes to %r, the table holds %r' % (k, g, w)
        else:
            return 'entry %d: unsupported source value %r' % (k, w)
    return None
