#!/bin/bash
# usage: tools/mkworktree.sh <dir>   – scratch git worktree of /repo HEAD incl. the (untracked) kernels
set -e
d="$1"
git -C /repo worktree add --detach "$d" HEAD >/dev/null 2>&1
cp /repo/biom/_filter.c /repo/biom/_subsample.c /repo/biom/_transform.c "$d/biom/"
cp /repo/biom/*.so "$d/biom/"
echo "$d"
