#!/usr/bin/env python3
"""Confirm a seeded property-breaking change and run checks against it.

  tools/seeded.py eval <worktree> <dir with patch.diff/demo.py/notes.md> <seed-id> <PID> [other PIDs...]

Steps (all in the scratch worktree, never in /repo): clean checkout, demo must exit 0; apply the patch,
the repository's own suite must give the baseline result, demo must exit non-zero; then every listed
check's quick tier is run with VERIF_REPO=<worktree>; finally the worktree is restored.  The outcome is
stored as /verif/seeded/<seed-id>/{patch.diff,demo.py,notes.md,meta.json}.
"""
import json
import os
import re
import shutil
import subprocess
import sys
import time

VERIF = os.path.dirname(os.path.dirname(os.path.abspath(__file__)))
BASELINE = (377, 0)


def sh(cmd, cwd=None, env=None, timeout=3600):
    r = subprocess.run(cmd, shell=True, cwd=cwd, env=env, capture_output=True, text=True, timeout=timeout)
    return r.returncode, r.stdout + r.stderr


def suite(wt):
    rc, out = sh('PYTHONPATH=%s /venv/bin/python -m pytest -q -p no:cacheprovider 2>&1 | tail -3' % wt, cwd=wt)
    m = re.search(r'(?:(\d+) failed, )?(\d+) passed', out)
    failed = int(m.group(1) or 0) if m else -1
    passed = int(m.group(2)) if m else -1
    return passed, failed, out.strip().splitlines()[-1] if out.strip() else ''


def demo(wt, d):
    rc, out = sh('PYTHONPATH=%s /venv/bin/python %s' % (wt, os.path.join(d, 'demo.py')), cwd=wt, timeout=600)
    return rc, out[-1500:]


def run_check(wt, pid, tier='quick', seed=0):
    env = dict(os.environ, VERIF_REPO=wt, VERIF_SEED=str(seed),
               VERIF_EVIDENCE_OUT=os.path.join(wt, '.verif-evidence-%s.json' % pid))
    t0 = time.time()
    rc, out = sh('./check %s --tier %s' % (pid, tier), cwd=VERIF, env=env, timeout=7200)
    sigs = re.findall(r'^  sig=(\S+)', out, flags=re.M)
    return {'pid': pid, 'rc': rc, 'sigs': sigs, 'wall_s': round(time.time() - t0, 1),
            'tail': [l for l in out.splitlines() if l.startswith(('VIOLATION', 'HARNESS', 'KNOWN'))][:6]}


def main():
    cmd, wt, d, sid = sys.argv[1:5]
    pids = sys.argv[5:]
    assert cmd == 'eval'
    wt = os.path.abspath(wt)
    d = os.path.abspath(d)
    meta = {'seed_id': sid, 'breaks_property': pids[0], 'checked_at': time.strftime('%Y-%m-%dT%H:%M:%S')}
    sh('git checkout -- .', cwd=wt)
    rc0, out0 = demo(wt, d)
    meta['demo_exit_without_change'] = rc0
    rc, out = sh('git apply %s' % os.path.join(d, 'patch.diff'), cwd=wt)
    if rc != 0:
        meta['error'] = 'patch does not apply: ' + out[-500:]
        print(json.dumps(meta, indent=1))
        return 2
    # rebuild kernels if a .c was touched
    sh('VERIF_REPO=%s PYTHONPATH=%s:%s /venv/bin/python -m mc.build' % (wt, wt, VERIF), cwd=VERIF)
    try:
        passed, failed, line = suite(wt)
        meta['suite_with_change'] = line
        meta['suite_matches_baseline'] = (passed, failed) == BASELINE
        rc1, out1 = demo(wt, d)
        meta['demo_exit_with_change'] = rc1
        meta['demo_output_with_change'] = out1[-600:]
        meta['checks'] = [run_check(wt, p) for p in pids]
    finally:
        sh('git checkout -- .', cwd=wt)
        sh('VERIF_REPO=%s PYTHONPATH=%s:%s /venv/bin/python -m mc.build' % (wt, wt, VERIF), cwd=VERIF)
    meta['confirmed'] = bool(meta.get('suite_matches_baseline') and rc0 == 0 and meta.get('demo_exit_with_change', 0) != 0)
    own = meta['checks'][0]
    meta['detected_by_own_check'] = own['rc'] == 1
    meta['detected_by'] = [c['pid'] for c in meta['checks'] if c['rc'] == 1]
    meta['what_ran'] = ['git apply patch.diff in a scratch worktree of /repo HEAD',
                        'pytest (repository suite) -> ' + meta.get('suite_with_change', ''),
                        'demo.py with/without the change -> exit %s / %s' % (meta.get('demo_exit_with_change'), rc0)] + \
                       ['VERIF_REPO=<worktree> ./check %s --tier quick -> rc %d %s' % (c['pid'], c['rc'], c['sigs'][:4])
                        for c in meta['checks']]
    notes = os.path.join(d, 'notes.md')
    meta['needs_to_manifest'] = open(notes).read()[:1500] if os.path.exists(notes) else ''
    out = os.path.join(VERIF, 'seeded', sid)
    os.makedirs(out, exist_ok=True)
    for f in ('patch.diff', 'demo.py', 'notes.md'):
        if os.path.exists(os.path.join(d, f)):
            shutil.copy(os.path.join(d, f), os.path.join(out, f))
    with open(os.path.join(out, 'meta.json'), 'w') as fh:
        json.dump(meta, fh, indent=1)
    print(json.dumps({k: meta[k] for k in ('seed_id', 'confirmed', 'suite_with_change', 'demo_exit_with_change',
                                           'demo_exit_without_change', 'detected_by')}, indent=1))
    for c in meta['checks']:
        print('  ', c['pid'], 'rc', c['rc'], c['sigs'][:5], '%.0fs' % c['wall_s'])
    return 0


if __name__ == '__main__':
    sys.exit(main())
