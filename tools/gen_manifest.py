#!/usr/bin/env python3
"""Regenerates MANIFEST.json from the table below and the property modules present."""
import json
import os

HERE = os.path.dirname(os.path.dirname(os.path.abspath(__file__)))
BASELINE = ("cd /repo && /venv/bin/python -m pytest -ra -q -p no:cacheprovider --timeout=900 "
            "--continue-on-collection-errors")

# id: (engine, design section, level category, technique, level text, level note)
P = {
 'C01': ('E2 pipeline enumerator', '5/C01', 'model_checking',
         'exhaustive small-scope enumeration of write/read pipelines (masks x layouts x compress x writers x loaders; id styles x metadata kinds) on the real code, field-by-field oracle',
         'Every HDF5 write/read pipeline in the stated finite product is executed on the real library and compared field by field (ids, float64 bit patterns, metadata, header, group metadata) with an observation of the source table; the table read back is written and read a second time; every state of the operation-history search (incl. tables with an empty axis) is round-tripped; no sampling.',
         'h5py, numpy, scipy.sparse.toarray trusted; ids/metadata over a finite style alphabet, matrices up to 3x3.'),
 'C02': ('E2 pipeline enumerator', '5/C02', 'model_checking',
         'exhaustive small-scope enumeration of JSON writer forms x readers over masks, hard float values, header/metadata string alphabets; stdlib json as independent decoder',
         'Every JSON write/read pipeline of the finite product (incl. tables with an empty axis) is run on the real writer (string and streamed form) and six readers; stdlib json decodes the text independently and values are compared as exact doubles; every table read back is written a second time; every state of the operation-history search is round-tripped.',
         'stdlib json/gzip trusted; finite alphabets of strings and values.'),
 'C03': ('E2 pipeline enumerator', '5/C03', 'model_checking',
         'exhaustive small-scope enumeration of TSV writers x readers (API and biom convert) over masks, hard floats, id styles',
         'Every TSV export/import path of the finite product (writers, readers, caller-chosen id column name, one exported category) is executed on the real code; ids in order, bit-identical values and the exported category are required; the imported table is exported again; every state of the operation-history search is round-tripped with and without a category.',
         'finite alphabets; click callbacks in process plus real subprocess runs in the thorough tier.'),
 'C04': ('E2 pipeline enumerator + raw-h5py spec decoder', '5/C04', 'model_checking',
         'exhaustive enumeration of written HDF5 files decoded by an independent BIOM 2.1 reader written against the spec with raw h5py',
         'Every file the library writes for the enumerated tables/layouts/writers is decoded by mc/h5spec.py (no biom import) and checked clause by clause against the 2.1 specification and the source table; the written file is loaded and the loaded table written and decoded again; in every state of the operation-history search the table is written, changed in place along each axis and written again from the same object.',
         'h5py trusted; the spec decoder is the oracle.'),
 'C05': ('E1 history explorer', '5/C05', 'model_checking',
         'explicit-state breadth-first search over operation histories on the real Table (concrete-state dedup), invariant evaluated in every reached state',
         'All operation histories over a ~130-op alphabet up to the completed depth from five start tables (thorough: also three tables read from HDF5 / JSON / classic text) are executed on the real object; the coherence invariant and agreement of every accessor are evaluated in every distinct concrete state; after every operation that returns a new table, in-place changes to either table must leave the other coherent.',
         'numpy/scipy toarray trusted; depth bound as reported in the evidence; finite argument alphabet.'),
}
for k in list(P):
    pass


def entry(pid):
    eng, ref, cat, tech, text, note = P[pid]
    return {
        'property_id': pid,
        'quick_cmd': './check %s --tier quick' % pid,
        'thorough_cmd': './check %s --tier thorough' % pid,
        'evidence_file': 'evidence/%s.json' % pid,
        'replay_cmd_template': './check %s --replay {path}' % pid,
        'engine': eng,
        'level_claimed': {'category': cat, 'text': text, 'design_ref': 'DESIGN.md section ' + ref},
        'level_note': note,
        'technique': tech,
    }


def main():
    props = [json.loads(l)['id'] for l in open(os.path.join(HERE, 'properties.jsonl'))]
    checks, na = [], []
    extra = {}
    px = os.path.join(HERE, 'tools', 'manifest_entries.json')
    if os.path.exists(px):
        extra = json.load(open(px))
    for k, v in extra.items():
        P[k] = tuple(v)
    ready = set(open(os.path.join(HERE, 'tools', 'ready.txt')).read().split())
    for pid in props:
        if pid in P and pid in ready and \
                os.path.exists(os.path.join(HERE, 'mc', 'props', pid.lower() + '.py')):
            checks.append(entry(pid))
        else:
            na.append({'property_id': pid,
                       'reason': 'check not built yet (model checking applies; see DESIGN.md section 5)'})
    man = {
        'version': 1,
        'setup_cmd': './setup.sh',
        'hooks': {
            'guard': 'BIOM_FORMAT_VERIF',
            'enable': 'no source hook exists: ./check exports BIOM_FORMAT_VERIF=1 and drives the unmodified '
                      'library through seams it already has (numpy.random.default_rng patched harness-side, '
                      'click callbacks, hand-driven context managers)',
            'baseline_off_cmd': BASELINE,
            'source_commits': [],
            'add_only': True,
        },
        'engines': [
            {'name': 'E1 history explorer', 'path': 'mc/explorer.py',
             'serves_properties': ['C02', 'C03', 'C05', 'C06', 'C07', 'C08', 'C13', 'C16', 'C18', 'C19'],
             'kind_free_text': 'explicit-state BFS over operation histories executed on the real Table (concrete-state '
                               'dedup incl. sparse layout), in lock-step with a dense reference model; follow mode for '
                               'unjudged operations'},
            {'name': 'E2 pipeline enumerator', 'path': 'mc/pipeline.py',
             'serves_properties': ['C01', 'C02', 'C03', 'C04', 'C06', 'C08', 'C09', 'C10', 'C11', 'C13', 'C14',
                                   'C16', 'C17', 'C18'],
             'kind_free_text': 'exhaustive cartesian enumeration of short pipelines / operand configurations on the '
                               'real code, fork pool that turns a crashed worker into a violation'},
            {'name': 'E3 environment-answer enumerator', 'path': 'mc/props/c12.py',
             'serves_properties': ['C12'],
             'kind_free_text': 'scripted random generator patched in at numpy.random.default_rng: every answer the '
                               'generator could give is enumerated'},
            {'name': 'E4 fault / mutation enumerator', 'path': 'mc/props/c15.py',
             'serves_properties': ['C15'],
             'kind_free_text': 'all single and double structural mutations of written JSON/HDF5 files'},
            {'name': 'E5 profile state machine', 'path': 'mc/props/c20.py',
             'serves_properties': ['C20'],
             'kind_free_text': 'explicit-state BFS on the process-global error profile with hand-driven context '
                               'managers, against a scoped-stack model'},
            {'name': 'BIOM 2.1 spec decoder', 'path': 'mc/h5spec.py', 'serves_properties': ['C04'],
             'kind_free_text': 'independent reader written from the format specification with raw h5py'},
        ],
        'checks': checks,
        'not_applicable': na,
        'notes': 'All checks: ./check <ID> [--tier quick|thorough] [--replay file]; evidence/<ID>.json rewritten per run; '
                 'known_findings.txt lists open findings (suppressed by exact signature) and fixed ones (suppress nothing).',
    }
    with open(os.path.join(HERE, 'MANIFEST.json'), 'w') as fh:
        json.dump(man, fh, indent=1)
    print('checks:', [c['property_id'] for c in checks], 'not built:', [n['property_id'] for n in na])


if __name__ == '__main__':
    main()
