#!/bin/bash
# Offline setup: nothing to download or compile for the framework itself (pure Python on
# /venv's interpreter, which already has the repository installed in editable mode).
# Verifies the interpreter and rebuilds stale kernels of /repo from their generated .c.
set -e
cd "$(dirname "${BASH_SOURCE[0]}")"
export VERIF_REPO="${VERIF_REPO:-/repo}"
export PYTHONPATH="$VERIF_REPO:$PWD"
/venv/bin/python -m mc.build
/venv/bin/python -c "import biom, numpy, scipy, h5py; print('setup ok: biom', biom.__version__, 'from', biom.__file__)"
mkdir -p evidence replays
